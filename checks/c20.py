"""C20 -- pprint / script_repr output rebuilds an equal object.

Decided in part, and only the part that lives in the shape of the printers: the text a printer emits is checked
against Python's own grammar (ast.parse of the emitted text -- the printed program is analysed, not run).
The remainder of C20 (repr of strings and numbers, the constructor-signature-driven printer of a Parameterized)
is not decided here.
"""
from __future__ import annotations

import ast

from engine.absint import Interp, Obj, Unsupported
from engine.loader import AnalysisError, norm

P = "param.parameterized."


def container_model(ctx, rule):
    """container_script_repr interpreted for a list and a tuple of 0..3 elements whose printed forms are e0, e1, e2.
    Specification: the emitted text, parsed as a Python expression, is a display of the SAME kind (list / tuple) with
    exactly those elements in order -- in particular a one-element tuple needs its trailing comma: "(e0)" is e0 --
    and every element is printed through pprint with the caller's imports list (nested objects add their imports)."""
    f = ctx.repo.func(P + "container_script_repr")
    problems, n = [], 0
    for kind in ("list", "tuple"):
        for k in range(0, 4):
            items = [Obj("element_%d" % i) for i in range(k)]
            container = list(items) if kind == "list" else tuple(items)
            imports = ["<the caller's imports list>"]
            seen = []

            def hook(fn, args, kwargs):
                if fn == "pprint" and args:
                    seen.append((args[0], args[1] if len(args) > 1 else kwargs.get("imports")))
                    return "e%d" % next(i for i, o in enumerate(items) if o is args[0])
                if fn == "isinstance" and len(args) == 2 and args[0] is container:
                    spec = args[1] if isinstance(args[1], (tuple, list)) else (args[1],)
                    return ("<type %s>" % kind) in spec
                if fn == "type" and len(args) == 1 and args[0] is container:
                    return "<type %s>" % kind
                if fn == "len" and len(args) == 1 and args[0] is container:
                    return k
                return NotImplemented
            it = Interp(ctx.hier, call_hook=hook)
            try:
                outs = it.run_all(f, {f.params[0]: container, f.params[1]: imports, f.params[2]: "\n    ", f.params[3]: []})
            except Unsupported as e:
                raise AnalysisError("%s: absint cannot interpret container_script_repr: %s" % (rule, e))
            if len(outs) != 1 or outs[0].imprecise or outs[0].kind != "return" or not isinstance(outs[0].value, str):
                raise AnalysisError("%s: container_script_repr is not interpretable precisely for a %s of %d (%s)" % (rule, kind, k, outs[0].notes[:2] if outs else "no outcome"))
            n += 1
            text = outs[0].value
            desc = "a %s of %d element(s)" % (kind, k)
            try:
                tree = ast.parse(text, mode="eval").body
            except SyntaxError:
                problems.append("%s is printed as %r, which is not a Python expression" % (desc, text))
                continue
            want_node = ast.List if kind == "list" else ast.Tuple
            if not isinstance(tree, want_node):
                problems.append("%s is printed as %r, which evaluates to %s, not to a %s: the rebuilt object holds a different value" % (
                    desc, text, "the element itself" if isinstance(tree, ast.Name) else "a " + type(tree).__name__.lower(), kind))
            elif [getattr(e, "id", None) for e in tree.elts] != ["e%d" % i for i in range(k)]:
                problems.append("%s is printed as %r: the elements are not the printed elements in order" % (desc, text))
            if [o for o, _ in seen] != items or any(im is not imports for _, im in seen):
                problems.append("%s: the elements are not each printed once through pprint with the caller's imports list" % desc)
    ctx.abstract_cases += n
    if problems:
        ctx.fail(rule, f, f.node, "container printer model: %s (%d disagreeing case(s))" % (problems[0], len(problems)), key=f.qualname + "::container-printer-model",
                 input="P(t=(7,)).param.pprint() -> 'P(t=(7))', which rebuilds t == 7")
    else:
        ctx.ok(rule, f, f.node, "container printer model, %d cases: lists and tuples of 0..3 elements are printed as displays of the same kind and arity" % n)


def run(ctx):
    ctx.rule("R20.a", "container printer model: container_script_repr interpreted for lists and tuples of 0..3 elements; the emitted text, parsed with Python's own grammar (ast.parse -- the "
                      "printed program is analysed, not run), is a display of the same kind with the same elements in order, each printed through pprint with the caller's imports list", floor=1)
    ctx.rule("R20.b", "float printer model: a printer is registered for float (pprint dispatches on the exact type before falling back to repr) and, interpreted on a finite float, inf, -inf "
                      "and nan, emits text that parses to a constant expression denoting the same float (repr of a non-finite float is a bare name)", floor=1)
    ctx.rule("R20.c", "object printer model: Parameters._pprint interpreted for an object of a class with constructor (self, a, b=<default>, **params) and parameters a, b, c, d, name (b changed "
                      "or not x generated / explicit name x precedence of c): the text parses to one call of the class; positional parameters first and in order; every changed parameter "
                      "appears exactly once with its own printed value; an auto-generated name and unchanged parameters are left out", floor=1)
    ctx.rule("R20.d", "the recursion guard of the object printer tells a recursive call by (object identity, thread identity), both obtained inside the per-call wrapper of _recursive_repr "
                      "(a thread identity captured when the decorator is applied makes concurrent printing of a shared nested object emit `...`)", floor=1)
    ctx.rule("R20.e", "what counts as changed: the comparator behind values(onlychanged=True) -- which decides what pprint / script_repr may leave out -- interpreted on small containers: "
                      "equal iff same type, same keys and equal values KEY BY KEY (a dict with the default's keys in another order and positionally matching values is a changed value) -- "
                      "shared with R03.c", floor=1)
    ctx.rule("R20.v", "changed-values model: Parameters.values(onlychanged=True) interpreted for x=None (allow_None, default 10), y at its default, z changed, generated name: exactly x and z", floor=1)
    ctx.rule("R20.r", "every printer registered in script_repr_reg is decided by a model of this check (list, tuple, float) or outside the property's value set (FunctionType); another "
                      "registration makes the check answer `cannot decide`", floor=1)
    ctx.rule("R20.i", "script imports model: script_repr interpreted with a printer that needs `import shapes`, `import shapes3d`, `import pkg`, `import pkg.sub`: the import lines of the script "
                      "bind every top-level module the printed text refers to, each line once", floor=1)
    ctx.rule("R20.n", "the value the printer reads is the value attribute access gives: no reader of the per-instance value store conflates an explicit None with 'not set' "
                      "(values() would report the class default for a parameter set to None, and the printed text rebuilds the default) -- shared with R15.g", floor=1)
    ctx.not_decided += ["that repr() of the leaf values (strings needing escapes, negative numbers) evaluates back to an equal value (Python's repr, not this code base)",
                        "constructor signatures other than (self, <positional>, <keyword>=default, **params): *args, keyword-only parameters, non-parameter arguments (printed as unknown_value)",
                        "values(onlychanged=True), which decides what counts as changed (C13 decides that values() agrees with attribute access)",
                        "containers without a registered printer (dict, set): printed with repr, i.e. nested Parameterized objects inside them are not script_repr'd"]
    container_model(ctx, "R20.a")
    float_model(ctx, "R20.b")
    object_printer_model(ctx, "R20.c")
    recursion_guard_rule(ctx, "R20.d")
    script_imports_model(ctx, "R20.i")
    registered_printers_have_models(ctx, "R20.r")
    changed_values_model(ctx, "R20.v")
    from checks.shared import comparator_model
    comparator_model(ctx, "R20.e")
    from checks.c15 import value_store_none_is_a_value
    value_store_none_is_a_value(ctx, "R20.n", "pprint / script_repr then leave the keyword out or print the default: the rebuilt object holds the default instead of None",
                                "Number(default=1.5, allow_None=True); obj.x = None; eval(obj.param.pprint()).x -> 1.5")


def float_model(ctx, rule):
    """Floats: repr() of a non-finite float is a bare name (inf, -inf, nan), not an expression.  The registry must hold a
    printer for float (pprint dispatches on the exact type before falling back to repr), and that printer, interpreted
    on a finite value and on inf / -inf / nan, must emit text that -- parsed with Python's grammar and evaluated as a
    constant expression -- denotes the same float."""
    import math
    mod = ctx.repo.func(P + "pprint").module
    reg = None
    for st in mod.tree.body:
        if isinstance(st, ast.Assign) and len(st.targets) == 1 and isinstance(st.targets[0], ast.Subscript) and norm(st.targets[0].value) == "script_repr_reg" \
                and norm(st.targets[0].slice) == "float" and isinstance(st.value, ast.Name):
            reg = st.value.id
    pp = ctx.repo.func(P + "pprint")
    if reg is None:
        ctx.fail(rule, pp, pp.node, "no printer is registered for float: pprint falls back to repr(), which prints inf, -inf and nan as bare names -- evaluating the text raises NameError "
                                    "(or picks up some unrelated `inf`)", key=pp.qualname + "::float-printed-with-repr", input="P(f=float('inf')).param.pprint() -> 'P(f=inf)'")
        return
    f = ctx.repo.func(P + reg)
    problems = []
    deferred = None
    for kind, value, rep in (("a finite float", 1.5, "1.5"), ("a negative float", -2.0, "-2.0"), ("inf", math.inf, "inf"), ("-inf", -math.inf, "-inf"), ("nan", math.nan, "nan")):
        v = Obj("float_value_" + kind)

        def hook(fn, args, kwargs):
            if fn == "repr" and args and args[0] is v:
                return rep
            if fn == "str" and args and args[0] is v:
                return rep
            if fn in ("math.isfinite", "isfinite") and args and args[0] is v:
                return math.isfinite(value)
            if fn in ("math.isinf", "isinf") and args and args[0] is v:
                return math.isinf(value)
            if fn in ("math.isnan", "isnan") and args and args[0] is v:
                return math.isnan(value)
            return NotImplemented
        it = Interp(ctx.hier, call_hook=hook)
        try:
            outs = it.run_all(f, {f.params[0]: v, f.params[1]: [], f.params[2]: "", f.params[3]: []})
        except Unsupported as e:
            deferred = deferred or AnalysisError("%s: absint cannot interpret %s: %s" % (rule, reg, e))
            continue
        if len(outs) != 1 or outs[0].imprecise or outs[0].kind != "return" or not isinstance(outs[0].value, str):
            # cannot decide on the abstract float -- unless the concrete probes below find a counterexample
            deferred = deferred or AnalysisError("%s: %s is not interpretable precisely on %s (%s)" % (rule, reg, kind, outs[0].notes[:2] if outs else "no outcome"))
            continue
        ctx.abstract_cases += 1
        text = outs[0].value

        def const(t):
            if isinstance(t, ast.Constant) and isinstance(t.value, (int, float)):
                return float(t.value)
            if isinstance(t, ast.UnaryOp) and isinstance(t.op, ast.USub):
                x = const(t.operand)
                return None if x is None else -x
            if isinstance(t, ast.Call) and isinstance(t.func, ast.Name) and t.func.id == "float" and len(t.args) == 1 and isinstance(t.args[0], ast.Constant) and isinstance(t.args[0].value, str) and not t.keywords:
                try:
                    return float(t.args[0].value)
                except ValueError:
                    return None
            return None
        try:
            got = const(ast.parse(text, mode="eval").body)
        except SyntaxError:
            got = None
        same = got is not None and (math.isnan(value) and math.isnan(got) or got == value)
        if not same:
            problems.append("%s is printed as %r, which does not denote that float" % (kind, text))
    # concrete probes: finite floats chosen for what a hand-made format gets wrong (17 significant digits, exponents, an
    # integral value, negative zero).  The printer is interpreted on the float itself; the emitted text, parsed, must
    # denote exactly that float.  A disagreement is a concrete counterexample.
    for value in (0.1 + 0.2, 1.1 * 3, 1e22, 1e-07, 1.0 / 3.0, -0.0, 123456789.0, 5e-324):
        def hook2(fn, args, kwargs):
            if fn in ("repr", "str") and len(args) == 1 and isinstance(args[0], float):
                return repr(args[0])
            if fn == "float" and len(args) == 1 and isinstance(args[0], str):
                try:
                    return float(args[0])
                except ValueError:
                    return NotImplemented
            if fn.split(".")[-1] in ("isfinite", "isinf", "isnan") and len(args) == 1 and isinstance(args[0], float):
                return getattr(math, fn.split(".")[-1])(args[0])
            return NotImplemented
        it = Interp(ctx.hier, call_hook=hook2)
        try:
            outs = it.run_all(f, {f.params[0]: value, f.params[1]: [], f.params[2]: "", f.params[3]: []})
        except Unsupported as e:
            raise AnalysisError("%s: absint cannot interpret %s on the float %r: %s" % (rule, reg, value, e))
        if len(outs) != 1 or outs[0].imprecise or outs[0].kind != "return" or not isinstance(outs[0].value, str):
            raise AnalysisError("%s: %s is not interpretable precisely on the float %r (%s)" % (rule, reg, value, outs[0].notes[:2] if outs else "no outcome"))
        ctx.abstract_cases += 1
        text = outs[0].value
        try:
            t = ast.parse(text, mode="eval").body
        except SyntaxError:
            t = None
        got = None
        if isinstance(t, ast.UnaryOp) and isinstance(t.op, ast.USub) and isinstance(t.operand, ast.Constant) and isinstance(t.operand.value, float):
            got = -t.operand.value
        elif isinstance(t, ast.Constant) and isinstance(t.value, float):
            got = t.value
        elif isinstance(t, ast.Call) and isinstance(t.func, ast.Name) and t.func.id == "float" and len(t.args) == 1 and isinstance(t.args[0], ast.Constant) and isinstance(t.args[0].value, str):
            try:
                got = float(t.args[0].value)
            except ValueError:
                got = None
        if got is None or got != value or math.copysign(1.0, got) != math.copysign(1.0, value):
            problems.append("the float %r is printed as %r, which %s" % (value, text, "is not a float literal" if got is None else "denotes %r" % got))
    if problems:
        ctx.fail(rule, f, f.node, "float printer model: %s (%d disagreeing case(s))" % (problems[0], len(problems)), key=f.qualname + "::float-printer-model")
    elif deferred is not None:
        raise deferred
    else:
        ctx.ok(rule, f, f.node, "float printer model: finite floats print as their repr, inf / -inf / nan as an expression that evaluates to them")


def object_printer_model(ctx, rule):
    """Parameters._pprint interpreted abstractly for an object of class Cls with constructor
    __init__(self, a, b=<default of b>, **params) and the parameters a, b, c, d and name: a given positionally, b changed or
    still at the signature's default, c changed, d unchanged, name auto-generated or explicit.

    Specification (what must hold for eval(text) to rebuild an equal object): the text parses to one call of Cls; the
    positional arguments are the printed values of the constructor's positional parameters, in order; every changed
    parameter appears exactly once, as positional argument or keyword, with ITS printed value; nothing else appears
    (an auto-generated name in particular is left out, an explicit one is kept)."""
    f = ctx.repo.func(P + "Parameters._pprint")
    problems, n = [], 0
    import itertools
    for b_changed, name_kind, c_prec, c_none in itertools.product([False, True, "param-default"], ["auto", "explicit"], [None, 0.5], [False, True]):
        mkv = lambda nm: Obj(nm, __eqclass__=nm)          # plain values: equal iff the same value
        default_b = mkv("signature_default_of_b")
        # "param-default": b holds the default its PARAMETER declares, which differs from the default in the constructor's signature:
        # values(onlychanged=True) does not list it, yet it must be printed, or the constructor's own default takes over on evaluation
        # c_none: c was changed to None (its default is something else): None is a value like any other and must be printed
        vals = {"a": mkv("value_a"), "b": (mkv("value_b") if b_changed else default_b), "c": (None if c_none else mkv("value_c")), "d": mkv("default_d"),
                "name": "Cls00012" if name_kind == "auto" else "my_name"}
        changed = {"a": vals["a"], "c": vals["c"]}
        if b_changed is True:
            changed["b"] = vals["b"]
        if name_kind == "explicit":
            changed["name"] = vals["name"]
        # values(onlychanged=True) reports the name too when it is not the class default; the printer filters generated ones
        if name_kind == "auto":
            changed["name"] = vals["name"]
        pobjs = {k: Obj("P_" + k, precedence=(c_prec if k == "c" else None)) for k in vals}
        spec = Obj("argspec", args=["self", "a", "b"], defaults=(default_b,), varargs=None, varkw="params", keywords="params")
        cls = Obj("Cls", __name__="Cls", __init__=Obj("Cls.__init__"))
        me = Obj("instance", __module__="pkg.mod", __class__=cls, name=vals["name"])
        me.attrs["param"] = Obj("namespace")
        text_of = {id(v): "V_%s" % k for k, v in vals.items() if isinstance(v, Obj)}

        def hook(fn, args, kwargs):
            if fn == "getfullargspec":
                return spec
            if fn == "type" and args and args[0] is me:
                return cls
            if fn.endswith(".param.values"):
                return dict(changed) if kwargs.get("onlychanged") or (args and args[0]) else dict(vals)
            if fn.endswith(".param.objects"):
                return dict(pobjs)
            if fn == "pprint" and args:
                v = args[0]
                return text_of[id(v)] if isinstance(v, Obj) else repr(v)
            if fn == "re.match" and len(args) == 2:
                return Obj("match") if args[1] == "Cls00012" else None
            if fn == "hasattr" and len(args) == 2:
                return isinstance(args[0], Obj) and args[1] in args[0].attrs
            if fn == "float" and args == ["inf"]:
                return 10 ** 9
            return NotImplemented
        it = Interp(ctx.hier, call_hook=hook, globals={"script_repr_suppress_defaults": True})
        try:
            outs = it.run_all(f, {"self": me, "imports": [], "prefix": " ", "unknown_value": "<?>", "qualify": False, "separator": ""})
        except Unsupported as e:
            raise AnalysisError("%s: absint cannot interpret Parameters._pprint: %s" % (rule, e))
        if len(outs) != 1 or outs[0].imprecise or outs[0].kind != "return" or not isinstance(outs[0].value, str):
            raise AnalysisError("%s: Parameters._pprint is not interpretable precisely (%s)" % (rule, outs[0].notes[:2] if outs else "no outcome"))
        n += 1
        text = outs[0].value
        desc = "Cls(a, b=<default>, **params) with a given, b %s, c changed" + (" to None" if c_none else "") + ", d unchanged, %s name"
        desc = desc % (
            "changed" if b_changed is True else "at the default its Parameter declares (which is not the signature's default)" if b_changed else "at its default", "an auto-generated" if name_kind == "auto" else "an explicit")
        try:
            tree = ast.parse(text, mode="eval").body
        except SyntaxError:
            problems.append("%s is printed as %r, which is not a Python expression" % (desc, text))
            continue
        if not (isinstance(tree, ast.Call) and isinstance(tree.func, ast.Name) and tree.func.id == "Cls"):
            problems.append("%s is printed as %r, which is not a call of the class" % (desc, text))
            continue
        pos = [norm(a) for a in tree.args]
        kws = [(k.arg, norm(k.value)) for k in tree.keywords]
        if pos and pos[0] != "V_a":
            problems.append("%s: the first positional argument is %s, not the printed value of a" % (desc, pos[0]))
        got = {}
        for i, a in enumerate(pos):
            got.setdefault(["a", "b"][i] if i < 2 else "?", []).append(a)
        for k, v in kws:
            got.setdefault(k, []).append(v)
        want = {"a": "V_a", "c": "None" if c_none else "V_c"}
        if b_changed:
            want["b"] = "V_b"
        if name_kind == "explicit":
            want["name"] = repr("my_name")
        for k, v in want.items():
            if got.get(k) != [v]:
                problems.append("%s is printed as %r: `%s` appears as %s, specification once with its printed value %s -- the rebuilt object does not hold that value" % (desc, text, k, got.get(k), v))
        for k in got:
            if k not in want and not (k == "b" and got[k] == ["V_b"]) and not (k == "d"):
                problems.append("%s is printed as %r: `%s` should not appear (%s)" % (desc, text, k, "an auto-generated name must not be carried over" if k == "name" else "it is not a parameter that changed"))
    ctx.abstract_cases += n
    if problems:
        ctx.fail(rule, f, f.node, "object printer model: %s (%d disagreeing case(s))" % (problems[0], len(problems)), key=f.qualname + "::object-printer-model")
    else:
        ctx.ok(rule, f, f.node, "object printer model, %d cases: positional parameters first and in order, every changed parameter once with its own printed value, generated names left out" % n)


def recursion_guard_rule(ctx, rule):
    """The recursion guard around the object printer (_recursive_repr) recognises a recursive call by (object, THREAD): the
    thread identity in the key has to be obtained inside the per-call wrapper.  Captured once when the decorator is
    applied, every thread shares the importing thread's identity, and a second thread printing an object that is being
    printed elsewhere gets the fill value `...` -- text that evaluates to Ellipsis."""
    f = ctx.repo.func("param._utils._recursive_repr")
    wrappers = [n for n in ast.walk(f.node) if isinstance(n, (ast.FunctionDef, ast.AsyncFunctionDef)) and n is not f.node and any(
        isinstance(c, ast.Call) and isinstance(c.func, ast.Name) and c.func.id == "user_function" for c in ast.walk(n))]
    inner = [w for w in wrappers if not any(isinstance(x, (ast.FunctionDef, ast.AsyncFunctionDef)) and x is not w for x in ast.walk(w))]
    if not inner:
        raise AnalysisError("%s: the per-call wrapper of _recursive_repr was not found" % rule)
    w = inner[0]
    adds = [c for c in ast.walk(w) if isinstance(c, ast.Call) and isinstance(c.func, ast.Attribute) and c.func.attr == "add" and c.args]
    if not adds:
        raise AnalysisError("%s: the wrapper of _recursive_repr no longer records the running key" % rule)
    keyexpr = adds[0].args[0]
    defs = [keyexpr]
    if isinstance(keyexpr, ast.Name):
        defs = [st.value for st in ast.walk(w) if isinstance(st, ast.Assign) and any(isinstance(t, ast.Name) and t.id == keyexpr.id for t in st.targets)]
    local_defs = {}
    for st in ast.walk(w):
        if isinstance(st, ast.Assign):
            for t in st.targets:
                if isinstance(t, ast.Name):
                    local_defs.setdefault(t.id, []).append(st.value)

    def calls_per_call(e, names, depth=0):
        """Does the value of e, as computed inside the wrapper, contain a call of one of `names`?  Local names are followed."""
        for c in ast.walk(e):
            if isinstance(c, ast.Call) and norm(c.func).rsplit(".", 1)[-1] in names:
                return True
            if isinstance(c, ast.Name) and isinstance(c.ctx, ast.Load) and c.id in local_defs and depth < 3:
                if all(calls_per_call(d, names, depth + 1) for d in local_defs[c.id]):
                    return True
        return False
    per_call_thread = bool(defs) and all(calls_per_call(d, ("get_ident", "current_thread", "get_native_id")) for d in defs)
    per_call_obj = bool(defs) and all(calls_per_call(d, ("id",)) for d in defs)
    if per_call_thread and per_call_obj:
        ctx.ok(rule, f, adds[0], "the guard's key is (id(object), thread identity), both obtained inside the per-call wrapper")
    else:
        ctx.fail(rule, f, adds[0], "the key of the recursion guard (`%s`) does not obtain the %s inside the per-call wrapper: %s" % (
            norm(defs[0])[:60] if defs else norm(keyexpr), "thread identity" if per_call_obj else "object identity",
            "while one thread prints an object, another thread that reaches the same object is taken for a recursive call and prints `...` for it -- the text evaluates to Ellipsis"),
            key=f.qualname + "::guard-key-not-per-call")


def script_imports_model(ctx, rule):
    """script_repr interpreted with the printer supplied by the model: printing the object appends the import lines
    `import shapes`, `import shapes3d`, `import pkg`, `import pkg.sub` (and `import shapes` a second time) to the list and
    returns text that refers to shapes.Point, shapes3d.Box, pkg.sub.Thing.

    Specification: the emitted script starts with import lines that bind every top-level module the text refers to
    (`import pkg.sub` binds pkg; `import shapes3d` does NOT bind shapes), each line once, followed by the printed text."""
    from engine.absint import Interp, Obj, Unsupported
    f = ctx.repo.func("param.parameterized.script_repr")
    needed = ["import shapes", "import shapes3d", "import pkg", "import pkg.sub", "import shapes"]
    rep = "shapes.Point(x=1, box=shapes3d.Box(), t=pkg.sub.Thing())"

    def hook(fn, args, kwargs):
        if fn == "pprint" and len(args) >= 2 and isinstance(args[1], list):
            args[1].extend(needed)
            return rep
        if fn in ("sorted", "list", "set") and len(args) == 1:
            v = hook.it.force(args[0])
            if isinstance(v, (list, set, tuple)) and all(isinstance(x, str) for x in v):
                return sorted(v) if fn == "sorted" else list(dict.fromkeys(v))      # a set of strings is modelled as a list without duplicates
        return NotImplemented
    it = Interp(ctx.hier, call_hook=hook)
    hook.it = it
    try:
        outs = it.run_all(f, {"val": Obj("object_to_print"), "imports": None, "prefix": "\n    ", "settings": [], "unknown_value": "<?>", "qualify": True, "separator": "\n", "show_imports": True})
    except Unsupported as e:
        raise AnalysisError("%s: absint cannot interpret script_repr: %s" % (rule, e))
    if len(outs) != 1 or outs[0].imprecise or outs[0].kind != "return" or not isinstance(outs[0].value, str):
        raise AnalysisError("%s: script_repr is not interpretable precisely (%s)" % (rule, outs[0].notes[:2] if outs else "no outcome"))
    ctx.abstract_cases += 1
    text = outs[0].value
    if not text.endswith(rep):
        ctx.fail(rule, f, f.node, "script_repr does not end with the printed object", key=f.qualname + "::script-text")
        return
    head = [l for l in text[:-len(rep)].split("\n") if l.strip()]
    bound = set()
    for l in head:
        if not l.startswith("import "):
            raise AnalysisError("%s: script_repr emits a line before the object that the model cannot read (%r)" % (rule, l))
        bound.add(l[len("import "):].split(".")[0].strip())
    missing = [m for m in ("shapes", "shapes3d", "pkg") if m not in bound]
    if missing:
        ctx.fail(rule, f, f.node, "script imports model: the printed text refers to %s but the script's import lines %s do not bind %s: evaluating the script raises NameError (a module whose name "
                                  "is a string prefix of another one's is not imported by importing the longer-named module)" % (rep.split("(")[0] + "(...)", head, missing),
                 key=f.qualname + "::import-dropped", input="script_repr of an object from module `shapes` nested in one from module `shapes3d`")
    elif len(head) != len(set(head)):
        ctx.fail(rule, f, f.node, "script imports model: an import line is emitted twice (%s)" % head, key=f.qualname + "::import-twice")
    else:
        ctx.ok(rule, f, f.node, "script imports model: every top-level module the printed text refers to is bound by an emitted import line, each line once")


PRINTER_MODELS = {"list": "R20.a", "tuple": "R20.a", "float": "R20.b", "FunctionType": "functions are outside the property's value set (literals, containers of literals, nested Parameterized)"}


def registered_printers_have_models(ctx, rule):
    """pprint dispatches on the exact type of a value through `script_repr_reg` before it falls back to repr().  Every type
    registered there is either decided by a printer model of this check or outside the property's value set (frozen
    table); a printer registered for another type -- str, int, dict, ... -- changes what is printed for literals, and no
    model here interprets it: the check cannot decide and says so (exit 2), it does not pass."""
    regs = []
    for mod in ctx.repo.modules.values() if hasattr(ctx.repo, "modules") else []:
        pass
    f = ctx.repo.func("param.parameterized.script_repr")
    tree = f.module.tree if hasattr(f.module, "tree") else None
    if tree is None:
        raise AnalysisError("%s: the module source of param.parameterized is not available" % rule)
    for st in ast.walk(tree):
        if isinstance(st, ast.Assign):
            for t in st.targets:
                if isinstance(t, ast.Subscript) and norm(t.value) == "script_repr_reg":
                    regs.append((norm(t.slice), st))
    ctx.require(len(regs) >= 3, "fewer than 3 registrations in script_repr_reg found (%d)" % len(regs))
    for k, st in regs:
        if k not in PRINTER_MODELS and isinstance(st.value, ast.Name) and k in ("str",):
            literal_printer_model(ctx, rule, k, st.value.id, st)
    unknown = [(k, st) for k, st in regs if k not in PRINTER_MODELS and k not in ("str",)]
    if unknown:
        raise AnalysisError("%s: a printer is registered for `%s` (`%s`) that no printer model of this check interprets -- what pprint emits for such values is not decided" % (
            rule, unknown[0][0], norm(unknown[0][1])[:60]))
    ctx.ok(rule, f, regs[0][1], "every type registered in script_repr_reg (%s) is covered by a printer model or outside the property's value set" % ", ".join(k for k, _ in regs))


STR_PROBES = ("", "plain", "two\nlines", 'ends with a quote"\nx"', "back\\slash\nx", "cr\r\nlf", 'has """ inside\n', "tab\tx\n", "trailing backslash\n\\", "\\n literal\n", "caf\u00e9\n")


def literal_printer_model(ctx, rule, tname, regname, stmt):
    """A printer registered for a literal type other than float (str here): interpreted on a fixed set of probe values
    chosen for what hand-made quoting gets wrong (quotes at the end, backslashes, carriage returns, a quote run inside);
    the emitted text, parsed with Python's grammar, must be a constant equal to the probe.  A disagreement is a concrete
    counterexample (violation).  Agreement on the probes proves nothing for all strings: unless every return of the
    printer is repr() of the value itself, the check says it cannot decide."""
    f = ctx.repo.func(P + regname)
    if tname != "str":
        raise AnalysisError("%s: a printer is registered for `%s` (`%s`) that no printer model of this check interprets" % (rule, tname, norm(stmt)[:60]))
    bad = []
    for probe in STR_PROBES:
        it = Interp(ctx.hier, call_hook=lambda fn, args, kwargs: repr(args[0]) if fn == "repr" and len(args) == 1 and isinstance(args[0], str) else NotImplemented)
        try:
            outs = it.run_all(f, {f.params[0]: probe, f.params[1]: [], f.params[2]: "", f.params[3]: []})
        except Unsupported as e:
            raise AnalysisError("%s: absint cannot interpret %s: %s" % (rule, regname, e))
        if len(outs) != 1 or outs[0].imprecise or outs[0].kind != "return" or not isinstance(outs[0].value, str):
            raise AnalysisError("%s: %s is not interpretable precisely on %r (%s)" % (rule, regname, probe, outs[0].notes[:2] if outs else "no outcome"))
        ctx.abstract_cases += 1
        text = outs[0].value
        try:
            t = ast.parse(text, mode="eval").body
            got = t.value if isinstance(t, ast.Constant) and isinstance(t.value, str) else None
        except (SyntaxError, ValueError):
            got = None
        if got != probe:
            bad.append("%r is printed as the text %s, which %s" % (probe, text if len(text) < 60 else text[:57] + "...", "does not parse" if got is None else "denotes %r" % got))
    if bad:
        ctx.fail(rule, f, f.node, "str printer model: %s (%d of %d probe strings disagree): the emitted script does not rebuild the value" % (bad[0], len(bad), len(STR_PROBES)),
                 key=f.qualname + "::str-printer-model", input="script_repr(P(s=%s))" % bad[0].split(" is printed")[0])
        return
    rets = [r for r in ast.walk(f.node) if isinstance(r, ast.Return)]
    if all(isinstance(r.value, ast.Call) and norm(r.value.func) == "repr" and len(r.value.args) == 1 and norm(r.value.args[0]) == f.params[0] for r in rets):
        ctx.ok(rule, f, f.node, "the printer registered for str returns repr(value) on every path")
        return
    raise AnalysisError("%s: the printer registered for str agrees with the %d probe strings but is not repr(value) on every path: no static argument here covers all strings" % (rule, len(STR_PROBES)))


def changed_values_model(ctx, rule):
    """Parameters.values(onlychanged=True) -- the list of keywords pprint / script_repr emit -- interpreted for an object
    with: x explicitly set to None (allow_None, default 10), y equal to its default, z changed, and an auto-generated
    name.  Specification: exactly the parameters whose value the comparator tells from the default are listed: x (None is
    a value like any other) and z; y and the generated name are left out."""
    from engine.absint import Interp, Obj, Unsupported
    f = ctx.repo.func("param.parameterized.Parameters.values")
    dx, dy, dz = 10, Obj("default_of_y"), Obj("default_of_z")
    vz = Obj("changed_value_of_z")
    pobjs = {"name": Obj("P_name", default="Cls", allow_None=False), "x": Obj("P_x", default=dx, allow_None=True), "y": Obj("P_y", default=dy, allow_None=False), "z": Obj("P_z", default=dz, allow_None=True)}
    current = {"name": "Cls00042", "x": None, "y": dy, "z": vz}
    target = Obj("instance")
    pns = Obj("namespace", self_or_cls=target, self=target, cls=Obj("Cls", __name__="Cls"))
    target.attrs["param"] = pns

    def hook(fn, args, kwargs):
        if fn.endswith(".param.objects") or fn.endswith(".objects"):
            return dict(pobjs)
        if fn.endswith(".get_value_generator") and args:
            return current[args[0]]
        if fn == "_is_auto_name" and len(args) == 2:
            return True
        if fn == "Comparator.is_equal" and len(args) == 2:
            return args[0] is args[1] or (isinstance(args[0], int) and args[0] == args[1])
        if fn == "itemgetter" and len(args) == 1 and isinstance(args[0], int):
            from engine.absint import PyFunc
            return PyFunc("itemgetter", lambda t, i=args[0]: t[i])
        return NotImplemented
    it = Interp(ctx.hier, dyn="param.parameterized.Parameters", inline=lambda m: False, call_hook=hook)
    try:
        outs = it.run_all(f, {f.params[0]: pns, "onlychanged": True})
    except Unsupported as e:
        raise AnalysisError("%s: absint cannot interpret Parameters.values: %s" % (rule, e))
    if len(outs) != 1 or outs[0].imprecise or outs[0].kind != "return" or not isinstance(outs[0].value, dict):
        raise AnalysisError("%s: Parameters.values(onlychanged=True) is not interpretable precisely (%s)" % (rule, outs[0].notes[:2] if outs else "no outcome"))
    ctx.abstract_cases += 1
    got = outs[0].value
    if set(got) != {"x", "z"} or got.get("x") is not None or got.get("z") is not vz:
        ctx.fail(rule, f, f.node, "values(onlychanged=True) of an object with x explicitly None (allow_None, default 10), y at its default and z changed lists %s, specification ['x', 'z']: %s" % (
            sorted(got), "a parameter cleared to None is left out of the printed constructor call -- the rebuilt object gets the default back" if "x" not in got else "the list is not what the comparator says"),
            key=f.qualname + "::changed-values", input="P(x=None).param.pprint() -> 'P()' for x = Number(10, allow_None=True)")
    else:
        ctx.ok(rule, f, f.node, "values(onlychanged=True) lists exactly the parameters the comparator tells from their default (an explicit None included)")
