"""C01 -- accepted values satisfy the declared constraints (DESIGN.md §3/C01)."""
from __future__ import annotations

import ast
from typing import Dict, List, Optional, Set, Tuple

from engine.cfg import decompose
from engine.effects import store_field, walk_stmts
from engine.facts import calls_in, no_redefinition_between, stores_in
from engine.hierarchy import PARAMETER
from engine.loader import AnalysisError, Func, norm

VALUE_STORE_WRITERS = {
    "param.parameterized.Parameter.__set__": "the descriptor setter (validates first, R01.a)",
    "param.parameters.Event._reset_event": "stores the literal False (always valid for a Boolean)",
    "param.parameterized.Parameters._instantiate_param": "copy of the already validated class default",
}
CONSTRAINT_SLOTS = ["bounds", "inclusive_bounds", "length", "regex", "item_type", "is_instance",
                    "class_", "_objects", "check_on_set", "allow_named", "allow_None"]
# frozen exceptions of R01.e, one reason each
UNCONSULTED_OK = {
    ("List", "class_"): "deprecated alias copied into item_type by the constructor",
    ("HookList", "class_"): "deprecated alias copied into item_type by the constructor",
    ("Composite", "allow_None"): "Composite stores no value of its own and is not one of the property's constraint types",
    ("Parameter", "allow_None"): "the base Parameter accepts every value (no constraint to apply allow_None to)",
    ("Dynamic", "allow_None"): "as Parameter",
    ("SelectorBase", "allow_None"): "abstract base without validation",
    ("_SignatureSelector", "allow_None"): "signature mixin without validation",
    ("Path", "allow_None"): "read through the inherited Parameter._validate? (checked: Path._validate reads self.allow_None)",
}
NO_DEFAULT_VALIDATION = {
    "Parameter": "accepts every value", "Dynamic": "accepts every value",
    "Composite": "has no default of its own (default=Undefined)", "SelectorBase": "abstract",
    "_SignatureSelector": "signature mixin",
}


def short(q):
    return q.rsplit(".", 1)[-1]


# --------------------------------------------------------------------- R01.a
def rule_a(ctx):
    f = ctx.repo.method(PARAMETER, "__set__")
    cfg = ctx.facts.cfg(f)
    aliases = ctx.facts.local_aliases(f)
    vals = [n for n in cfg.live_nodes() for c in calls_in(n)
            if isinstance(c.func, ast.Attribute) and c.func.attr == "_validate"
            and isinstance(c.func.value, ast.Name) and c.func.value.id == "self"]
    ctx.require(vals, "Parameter.__set__ does not call self._validate: anchor of R01.a vanished")
    n_stores = 0
    for n in cfg.live_nodes():
        for t in stores_in(n):
            fld = store_field(ctx.facts, t, aliases)
            if fld not in ("private.values", "self.default"):
                continue
            if isinstance(n.ast, ast.Delete):
                continue
            n_stores += 1
            rhs = n.ast.value if isinstance(n.ast, (ast.Assign, ast.AugAssign)) else None
            if not isinstance(rhs, ast.Name):
                ctx.fail("R01.a", f, n, "the value store is written with a non-variable expression `%s`; cannot match it to a validated value" % norm(rhs))
                continue
            ok = False
            for v in vals:
                c = [c for c in calls_in(v) if isinstance(c.func, ast.Attribute) and c.func.attr == "_validate"][0]
                if len(c.args) == 1 and isinstance(c.args[0], ast.Name) and c.args[0].id == rhs.id \
                        and cfg.dominates(v, n) and no_redefinition_between(cfg, v, n, rhs.id):
                    ok = True
            if ok:
                ctx.ok("R01.a", f, n, "store of `%s` into %s is dominated by self._validate(%s) with no rebinding in between" % (rhs.id, fld, rhs.id))
            else:
                ctx.fail("R01.a", f, n, "the store `%s` is not dominated by a call self._validate(%s) on the same binding of `%s`: "
                                        "a value can be installed without having been validated" % (n.text(), rhs.id, rhs.id))
    ctx.require(n_stores >= 4, "fewer than 4 value-store writes recognised in Parameter.__set__ (%d)" % n_stores)
    # overrides reach the store only through super().__set__
    for g in ctx.hier.overrides(PARAMETER, "__set__"):
        if g is f:
            continue
        ga = ctx.facts.local_aliases(g)
        direct = [n for n in ctx.facts.cfg(g).live_nodes() for t in stores_in(n)
                  if store_field(ctx.facts, t, ga) in ("private.values", "self.default")]
        if direct:
            ctx.fail("R01.a", g, direct[0], "a __set__ override writes the value store itself instead of going through super().__set__ (which validates)")
        else:
            ctx.ok("R01.a", g, g.node, "override writes the value store only through super().__set__/helpers")


# --------------------------------------------------------------------- R01.b
def rule_b(ctx):
    n_sites = 0
    for f in ctx.repo.all_funcs("param"):
        has = False
        for sub in ast.walk(f.node):
            if isinstance(sub, ast.Attribute) and sub.attr == "values" and isinstance(sub.value, ast.Attribute) and sub.value.attr == "_param__private":
                has = True
                break
        if not has and f.qualname not in VALUE_STORE_WRITERS:
            continue
        aliases = ctx.facts.local_aliases(f)
        for st in walk_stmts(f.node):
            if isinstance(st, (ast.FunctionDef, ast.AsyncFunctionDef)):
                continue
            sites = []
            for t in stores_in(st):
                if store_field(ctx.facts, t, aliases) == "private.values":
                    sites.append("store")
            if not isinstance(st, (ast.If, ast.For, ast.While, ast.With, ast.Try)):
                for c in (x for x in ast.walk(st) if isinstance(x, ast.Call)):
                    if isinstance(c.func, ast.Attribute) and c.func.attr in ("update", "setdefault", "pop", "clear", "popitem", "__setitem__") \
                            and ctx.facts.field_of(c.func.value, aliases) == "private.values":
                        sites.append("mutate .%s" % c.func.attr)
            for s in sites:
                n_sites += 1
                if f.qualname in VALUE_STORE_WRITERS:
                    ctx.ok("R01.b", f, st, "allowed writer: %s" % VALUE_STORE_WRITERS[f.qualname])
                else:
                    ctx.fail("R01.b", f, st, "`%s` writes the per-instance value store outside the three allowed writers "
                                             "(descriptor setter, Event reset, constructor copy of the class default): the value bypasses validation" % norm(st)[:100])
    ctx.require(n_sites >= 4, "fewer than 4 writes of the value store found in param/ (%d): recogniser broken" % n_sites)


# --------------------------------------------------------------------- R01.c
class Ev:
    __slots__ = ("kind", "what", "func", "node")

    def __init__(self, kind, what, func, node):
        self.kind, self.what, self.func, self.node = kind, what, func, node

    def __repr__(self):
        return "%s(%s)" % (self.kind, self.what)


def ctor_events(ctx, dyn: str, f: Func, depth=0) -> List[Ev]:
    """Linearised constructor chain of dynamic type ``dyn`` starting at ``f``."""
    if depth > 8:
        raise AnalysisError("constructor chain of %s too deep" % dyn)
    hier = ctx.hier
    out: List[Ev] = []
    selfname = f.params[0] if f.params else "self"
    owner = f.cls.qualname if f.cls else None

    def handle_call(c: ast.Call, st):
        fn = c.func
        if not isinstance(fn, ast.Attribute):
            return
        recv, m = fn.value, fn.attr
        is_self = isinstance(recv, ast.Name) and recv.id == selfname
        is_super = isinstance(recv, ast.Call) and norm(recv.func) == "super"
        if m == "__init__":
            t = None
            if is_super and owner:
                t = hier.resolve(dyn, "__init__", after=owner)
            elif isinstance(recv, ast.Name) and not is_self:
                q = hier.resolve_name(f.module, recv.id)
                if q in ctx.repo.classes:
                    t = hier.resolve(q, "__init__")
            if t is not None:
                out.extend(ctor_events(ctx, dyn, t, depth + 1))
            return
        if is_self and m in ("_validate", "_validate_value"):
            if c.args and norm(c.args[0]) == "%s.default" % selfname:
                out.append(Ev("validate", m, f, st))
            return
        if is_self:
            t = hier.resolve(dyn, m)
            if t is not None and t.cls is not None and hier.is_subclass(t.cls.qualname, PARAMETER) and t is not f:
                # helper that stores slots (e.g. _set_allow_None, _set_instantiate, _update_state)
                sub = [e for e in ctor_events(ctx, dyn, t, depth + 1) if e.kind == "store"]
                out.extend(sub)

    def visit(stmts):
        for st in stmts:
            if isinstance(st, (ast.FunctionDef, ast.AsyncFunctionDef, ast.ClassDef)):
                continue
            if isinstance(st, (ast.If, ast.While)):
                for c in (x for x in ast.walk(st.test) if isinstance(x, ast.Call)):
                    handle_call(c, st)
                visit(st.body)
                visit(st.orelse)
                continue
            if isinstance(st, (ast.For, ast.With, ast.Try)):
                visit(getattr(st, "body", []))
                for h in getattr(st, "handlers", []) or []:
                    visit(h.body)
                visit(getattr(st, "orelse", []) or [])
                visit(getattr(st, "finalbody", []) or [])
                continue
            # calls first (RHS evaluated before the store)
            for c in (x for x in ast.walk(st) if isinstance(x, ast.Call)):
                handle_call(c, st)
            for t in stores_in(st):
                if isinstance(t, ast.Attribute) and isinstance(t.value, ast.Name) and t.value.id == selfname:
                    setter = hier.property_setter(dyn, t.attr)
                    if setter is not None:
                        out.extend(e for e in ctor_events(ctx, dyn, setter, depth + 1) if e.kind == "store")
                    else:
                        out.append(Ev("store", t.attr, f, st))
    visit(f.node.body)
    return out


def validator_reads(ctx, dyn: str, entry="_validate") -> Dict[str, List[str]]:
    """self.<attr> loads in the self-call closure of dyn.<entry>; properties
    are expanded to the slots their getter reads."""
    reads: Dict[str, List[str]] = {}
    for f in ctx.hier.self_closure(dyn, entry):
        selfname = f.params[0] if f.params else "self"
        for sub in ast.walk(f.node):
            if isinstance(sub, ast.Attribute) and isinstance(sub.ctx, ast.Load) and isinstance(sub.value, ast.Name) and sub.value.id == selfname:
                names = [sub.attr]
                if ctx.hier.is_property(dyn, sub.attr):
                    g = ctx.hier.resolve(dyn, sub.attr)
                    names += [x.attr for x in ast.walk(g.node) if isinstance(x, ast.Attribute) and isinstance(x.value, ast.Name)
                              and x.value.id == (g.params[0] if g.params else "self")]
                for nm in names:
                    reads.setdefault(nm, []).append(f.qualname)
    return reads


def rule_c_e(ctx):
    pcs = ctx.hier.parameter_classes()
    ctx.require(len(pcs) >= 35, "only %d Parameter classes found (floor 35)" % len(pcs))
    seqs = {}
    for q in pcs:
        name = short(q)
        c = ctx.repo.classes[q]
        slots = set(ctx.hier.all_slots(q))
        init = ctx.hier.resolve(q, "__init__")
        reads = validator_reads(ctx, q)
        # ---- R01.e
        for s in CONSTRAINT_SLOTS:
            if s not in slots:
                continue
            if s in reads:
                ctx.ok("R01.e", c.method("_validate") or ctx.hier.resolve(q, "_validate"), None,
                       "%s.%s is read by %s" % (name, s, short(reads[s][0])))
            elif (name, s) in UNCONSULTED_OK:
                ctx.info("R01.e", q, None, "%s.%s not consulted: %s" % (name, s, UNCONSULTED_OK[(name, s)]))
            else:
                vf = ctx.hier.resolve(q, "_validate")
                ctx.fail("R01.e", vf, vf.node,
                         "constraint slot `%s` of %s is never read by the validators reachable from %s._validate: "
                         "the declared constraint is not enforced on assignment" % (s, name, name),
                         key="%s::unconsulted::%s" % (q, s))
        # ---- R01.c
        if name in NO_DEFAULT_VALIDATION:
            ctx.info("R01.c", q, None, "%s: %s" % (name, NO_DEFAULT_VALIDATION[name]))
            continue
        evs = ctor_events(ctx, q, init)
        seqs[name] = [repr(e) for e in evs]
        vals = [i for i, e in enumerate(evs) if e.kind == "validate"]
        if not vals:
            ctx.fail("R01.c", init, init.node, "the constructor chain of %s never validates the default (no self._validate(self.default))" % name,
                     key="%s::no-default-validation" % q)
            continue
        last = vals[-1]
        needed = {s for s in reads if s in slots and s not in ("name", "owner", "default")}
        late = [e for i, e in enumerate(evs) if e.kind == "store" and e.what in needed and i > last]
        if late:
            e = late[0]
            ctx.fail("R01.c", e.func, e.node,
                     "%s: slot `%s` (read by the validators) is stored after the default was validated: "
                     "the default is checked against a constraint that is not yet in place" % (name, e.what),
                     key="%s::late-store::%s" % (q, e.what))
        else:
            ctx.ok("R01.c", evs[last].func, evs[last].node,
                   "%s: default validated after %d constraint-slot store(s) %s" % (
                       name, sum(1 for e in evs if e.kind == "store" and e.what in needed), sorted({e.what for e in evs if e.kind == "store" and e.what in needed})))
    ctx.extra["constructor_event_sequences"] = seqs


# --------------------------------------------------------------------- R01.d
def rule_d(ctx):
    for q in ctx.hier.parameter_classes():
        init = ctx.repo.classes[q].method("__init__")
        if init is None:
            continue
        a = init.node.args
        named = [x.arg for x in a.posonlyargs + a.args + a.kwonlyargs][1:]
        loads = {n.id for n in ast.walk(init.node) if isinstance(n, ast.Name) and isinstance(n.ctx, ast.Load)}
        for p in named:
            if p in loads:
                ctx.ok("R01.d", init, init.node, "argument `%s` of %s.__init__ is used" % (p, short(q)))
            else:
                ctx.fail("R01.d", init, init.node,
                         "%s.__init__ accepts the argument `%s` and never uses it (not stored, not forwarded): "
                         "the constraint the user declared is silently ignored" % (short(q), p),
                         key="%s::dropped-argument::%s" % (init.qualname, p),
                         input="param.%s(%s=True).%s" % (short(q), p, p))


# --------------------------------------------------------------------- R01.g
def rule_g(ctx):
    tq = "param.parameters.Tuple"
    for q in ctx.hier.descendants(tq, strict=True):
        f = ctx.repo.classes[q].method("_validate_value")
        if f is None:
            continue
        cfg = ctx.facts.cfg(f)
        val = f.params[1] if len(f.params) > 1 else "val"
        uses = []
        for n in cfg.live_nodes():
            if n.kind == "iter" and isinstance(n.stmt.iter, ast.Name) and n.stmt.iter.id == val:
                uses.append(n)
            elif n.kind == "stmt" and isinstance(n.ast, ast.Assign) and isinstance(n.ast.targets[0], ast.Tuple) \
                    and isinstance(n.ast.value, ast.Name) and n.ast.value.id == val:
                uses.append(n)
        if not uses:
            ctx.ok("R01.g", f, f.node, "does not iterate the value itself")
            continue
        for u in uses:
            ok = None
            for d in cfg.dominating(u):
                if d is u:
                    continue
                if d.kind == "br":
                    for e, t in decompose(d.ast, d.polarity):
                        if t is True and norm(e) == "isinstance(%s, tuple)" % val:
                            ok = "own isinstance(%s, tuple) check" % val
                for c in calls_in(d):
                    if isinstance(c.func, ast.Attribute) and c.func.attr == "_validate_value" \
                            and isinstance(c.func.value, ast.Call) and norm(c.func.value.func) == "super":
                        sup = ctx.hier.resolve(q, "_validate_value", after=q)
                        ok = "super()._validate_value (%s)" % (sup.qualname if sup else "?")
                    elif isinstance(c.func, ast.Attribute) and c.func.attr == "_validate_value" and isinstance(c.func.value, ast.Name) \
                            and ctx.hier.resolve_name(f.module, c.func.value.id) in ctx.hier.mro(q)[1:] \
                            and ctx.hier.is_subclass(ctx.hier.resolve_name(f.module, c.func.value.id), tq):
                        ok = "%s._validate_value(self, ...)" % c.func.value.id
            if ok:
                ctx.ok("R01.g", f, u, "iteration of `%s` is preceded by %s" % (val, ok))
            else:
                ctx.fail("R01.g", f, u,
                         "%s._validate_value iterates/unpacks `%s` without first checking that it is a tuple "
                         "(sibling overrides do): a list is accepted and stored in a Tuple parameter" % (short(q), val),
                         key="%s::no-tuple-check" % f.qualname,
                         input="param.%s().__set__: P.x = [date(2020,1,1), date(2020,1,2)]" % short(q))
                break



# --------------------------------------------------------------------- R01.y
_PERSISTING_CALLS = {"setattr", "__setattr__", "setdefault", "__setitem__", "update"}
_CACHE_DECORATORS = {"cache", "lru_cache", "cached_property", "functools.cache", "functools.lru_cache", "functools.cached_property"}


def _persistent_stores(f):
    """Constructs of ``f`` that keep something from one call to the next."""
    out = []
    for d in f.decorators:
        if d.split("(")[0] in _CACHE_DECORATORS:
            out.append((f.node, "memoising decorator @%s" % d))
    for n in ast.walk(f.node):
        if isinstance(n, (ast.Global, ast.Nonlocal)):
            out.append((n, "`%s`" % norm(n)))
        elif isinstance(n, (ast.Attribute, ast.Subscript)) and isinstance(n.ctx, (ast.Store, ast.Del)):
            base = n.value
            while isinstance(base, (ast.Attribute, ast.Subscript)):
                base = base.value
            out.append((n, "store `%s`" % norm(n)))
        elif isinstance(n, ast.Call) and isinstance(n.func, (ast.Attribute, ast.Name)):
            nm = n.func.attr if isinstance(n.func, ast.Attribute) else n.func.id
            if nm in _PERSISTING_CALLS:
                out.append((n, "call `%s`" % norm(n)[:80]))
    return out


def lazy_type_groups_are_stateless(ctx, rule):
    """The lazy type groups (``_int_types``, ``_dt_types``, ...) are what the
    type tests of Integer, Date, DateRange... are made against; their members
    depend on what is imported *now* (``sys.modules``).  A verdict that depends
    only on the value and the declared constraints needs the group to be
    re-evaluated by every test: the metaclass' ``__instancecheck__`` /
    ``__subclasscheck__`` reach a ``types()`` call on every path and nothing
    in the metaclass, its base class or any ``@gen_types`` generator keeps
    state from one test to the next."""
    meta = ctx.repo.cls("param._utils._GeneratorIsMeta")
    funcs = []
    for name, fs in meta.methods.items():
        funcs.extend(fs)
    base = ctx.repo.classes.get("param._utils._GeneratorIs")
    if base is not None:
        for name, fs in base.methods.items():
            funcs.extend(fs)
    gens = []
    for f in ctx.repo.all_funcs("param"):
        if any(d == "gen_types" or d.endswith(".gen_types") for d in f.decorators):
            gens.append(f)
    ctx.require(len(gens) >= 1, "no @gen_types generator found (the lazy type groups moved)")
    helpers = {f.name: f for f in funcs}

    def reaches_types(f, seen=()):
        """Every path of f to a return evaluates <x>.types() (directly or through a helper of the metaclass)."""
        cfg = ctx.facts.cfg(f)
        marks = []
        for n in cfg.live_nodes():
            for c in calls_in(n):
                if isinstance(c.func, ast.Attribute) and c.func.attr == "types":
                    marks.append(n)
                elif isinstance(c.func, ast.Attribute) and c.func.attr in helpers and c.func.attr not in seen and c.func.attr != f.name \
                        and reaches_types(helpers[c.func.attr], seen + (f.name,)):
                    marks.append(n)
        if not marks:
            return False
        exits = [n for n in cfg.live_nodes() if n.kind == "stmt" and isinstance(n.ast, ast.Return)]
        for e in exits:
            if not any(m is e or cfg.dominates(m, e) for m in marks):
                return False
        return bool(exits)

    for name in ("__instancecheck__", "__subclasscheck__"):
        f = ctx.repo.method(meta.qualname, name)
        if reaches_types(f):
            ctx.ok(rule, f, f.node, "%s evaluates types() on every path to its verdict" % name)
        else:
            ctx.fail(rule, f, f.node,
                     "_GeneratorIsMeta.%s gives a verdict without evaluating types() on that path: the members of a lazy type group "
                     "(numpy integers, numpy datetime64 ... present once the module is imported) are not looked up by this test" % name,
                     key="%s::verdict-without-types" % f.qualname,
                     input="P.x = numpy.int64(3) for x = param.Integer(), numpy imported after the first validation")
    for f in funcs + gens:
        st = _persistent_stores(f)
        if not st:
            ctx.ok(rule, f, f.node, "%s keeps nothing between two type tests" % f.qualname)
        for n, what in st:
            ctx.fail(rule, f, n,
                     "%s keeps state between two type tests (%s): the members of a lazy type group depend on the modules imported at "
                     "the time of the test, so a remembered answer makes the verdict on a value depend on what was validated earlier "
                     "(an Integer validated before numpy is imported rejects numpy.int64 for good)" % (f.qualname, what),
                     key="%s::keeps-state" % f.qualname,
                     input="param.Integer().… validated once; import numpy; P.x = numpy.int64(3)")


def run(ctx):
    ctx.rule("R01.a", "every store into the value store in Parameter.__set__ is dominated by self._validate(v) on the same binding of v; overrides store only through super().__set__", floor=6)
    ctx.rule("R01.b", "the per-instance value store has exactly three writers (descriptor setter, Event reset to False, constructor copy of the class default)", floor=4)
    ctx.rule("R01.c", "the constructor chain of every validating Parameter type validates the default after every slot its validators read has been stored", floor=30)
    ctx.rule("R01.d", "every named argument of a Parameter subclass' real __init__ is used (stored, forwarded or read)", floor=40)
    ctx.rule("R01.e", "every constraint slot of every Parameter type is read by a validator reachable from its _validate", floor=45)
    ctx.rule("R01.f", "bound comparisons are exact on the whole ordering domain (abstract interpretation against an oracle written from the property statement)", floor=5)
    ctx.rule("R01.h", "None is accepted iff allow_None and any other value iff it has the declared value type, for 15 built-in types (abstract interpretation of the full validator, type predicates as abstract inputs)", floor=12)
    ctx.rule("R01.j", "String/Bytes with a regex accept a well-typed value iff the regex matches it (empty strings included) and None iff allow_None (abstract interpretation of the full validator, re.match as abstract input)", floor=2)
    ctx.rule("R01.k", "class creation re-validates an inherited-constraints default whenever the type changed or a slot was overridden, for every default other than None "
                      "(the guard of the _validate call in __param_inheritance, evaluated on None / falsy / truthy defaults x trigger flags)", floor=1)
    ctx.rule("R01.l", "selector model: the validators of Selector and ListSelector interpreted abstractly (objects from a list / from a dict / a dict-declared selector after a list-style replacement x allow_None x check_on_set x None / object in force / object names still mentions / unknown object, 104 cases): accepted iff None with allow_None or one of the objects in force (_objects); nothing appended under check_on_set, unknown values appended once without it", floor=1)
    ctx.rule("R01.n", "the comparison helper does not move the value: _to_datetime, interpreted abstractly on a datetime / a plain date / something else, returns a datetime and anything else "
                      "unchanged (the very object) and converts only plain dates (R01.f compares bounds through it and assumes it preserves order)", floor=1)
    ctx.rule("R01.g", "every _validate_value override below Tuple checks isinstance(val, tuple) (itself or via super) before iterating the value", floor=3)
    ctx.rule("R01.i", "list-item model: List._validate_item_type interpreted on lists of one to three items with the ill-typed item at every position, for is_instance True and False "
                      "(where all items are classes and share one `type`): accepted iff every item is an instance / a subclass of the declared item_type", floor=1)
    ctx.rule("R01.o", "constructor model: Parameters._setup_params interpreted abstractly (keywords x reference modes, a keyword that restates the class default object included): every "
                      "keyword value -- resolved, for references -- is assigned through setattr, i.e. reaches the validating setter", floor=1)
    ctx.rule("R01.u", "update model: Parameters._update interpreted abstractly (entry flag x key orders x rejected / unknown key x a key given the value it already holds): every key given "
                      "reaches the validating setter, so update(...) accepts exactly what an assignment accepts", floor=1)
    ctx.rule("R01.m", "setter model: Parameter.__set__ interpreted abstractly on every combination (576) of route x constant/readonly x validation outcome x identity x reference mode x watchers x batching agrees with the specification of this property (see checks/setter_model.py)", floor=1)
    ctx.rule("R01.x", "the allowed objects are what the mutators say they are (ListProxy model, shared with R18.j): after every list-style or dictionary-style mutation the list a Selector "
                      "validates against holds exactly the objects the mutation describes -- a replacement that lands in the wrong slot keeps a removed object valid and drops a listed one", floor=1)
    ctx.rule("R01.r", "Color's hex test accepts exactly the declared value set: the LANGUAGE of the literal pattern, computed from its parse tree (re._parser.parse; nothing is matched) over the "
                      "abstract alphabet {'#', hex digit, other}, is {#?hhh, #?hhhhhh} anchored at both ends (case-insensitive flags are followed)", floor=1)
    ctx.rule("R01.w", "namespace model (shared with R13.h): ParameterizedMetaclass.__setattr__ / _clear_params_cache, Parameters.add_parameter and the _cls_parameters property interpreted abstractly on hierarchies of up to three levels and a diamond: after every class-level assignment, add_parameter or removal, `.param[name]` of every class of the hierarchy is the very Parameter object that governs attribute access there -- a stale lookup hands `C.param.x.bounds = ...` to another Parameter than the one that validates assignments to C and its instances: the constraints in force are ignored", floor=1)
    from checks import namespace_model
    namespace_model.report(ctx, "R01.w")
    ctx.rule("R01.y", "the lazy type groups behind Integer / Date / DateRange ... are re-evaluated by every type test: _GeneratorIsMeta.__instancecheck__ / __subclasscheck__ "
             "evaluate types() on every path to their verdict, and neither the metaclass, its base class nor any @gen_types generator keeps state between two tests "
             "(no attribute / item store, setattr, global, memoising decorator) -- the members depend on sys.modules at the time of the test", floor=5)
    lazy_type_groups_are_stateless(ctx, "R01.y")
    ctx.not_decided += ["semantics of re.match / isinstance / `in` (trusted library operations: only that they are consulted is checked)",
                        "Selector membership under concurrent mutation of objects", "accept-iff-spec for value *types* (bool vs int, date vs datetime)"]
    rule_a(ctx)
    rule_b(ctx)
    rule_c_e(ctx)
    rule_d(ctx)
    rule_g(ctx)
    from checks.c01_bounds import rule_f
    rule_f(ctx)
    from checks.c01_types import rule_h, rule_regex, rule_color_pattern
    rule_h(ctx)
    rule_regex(ctx)
    rule_color_pattern(ctx, "R01.r")
    from checks import listproxy_model
    listproxy_model.report(ctx, "R01.x", objects_only=True)
    from checks.shared import inherited_default_revalidated
    inherited_default_revalidated(ctx, "R01.k")
    from checks import selector_model
    selector_model.report(ctx, "R01.l")
    # ---- R01.n
    from engine.absint import Interp as _I, Obj as _O, Unsupported as _U
    td = ctx.repo.func("param._utils._to_datetime")
    badt = None
    for kind in ("datetime", "date", "other"):
        x = _O("value_" + kind, kind=kind)
        made = []

        def hook_t(fn, args, kwargs, kind=kind, x=x, made=made):
            if fn == "isinstance" and len(args) == 2 and args[0] is x:
                spec = args[1] if isinstance(args[1], tuple) else (args[1],)
                return any((t == "<date>" and kind in ("date", "datetime")) or (t == "<datetime>" and kind == "datetime") for t in spec)
            if fn in ("dt.datetime", "dt.datetime.combine", "datetime.datetime", "dt.datetime.fromordinal"):
                o = _O("datetime_built_from_the_value")
                made.append(o)
                return o
            return NotImplemented
        it_t = _I(ctx.hier, call_hook=hook_t, globals={"dt": _O("datetime_module", date="<date>", datetime="<datetime>")})
        try:
            outs = it_t.run_all(td, {td.params[0]: x})
        except _U as e:
            raise AnalysisError("absint cannot interpret _to_datetime: %s -- R01.n cannot decide" % e)
        ctx.abstract_cases += 1
        if len(outs) != 1 or outs[0].imprecise or outs[0].kind != "return":
            raise AnalysisError("absint imprecise on _to_datetime(%s) -- R01.n cannot decide" % kind)
        r = outs[0].value
        if kind in ("datetime", "other") and r is not x:
            badt = "a %s is replaced by %r: a datetime rebuilt from parts loses its microseconds / time zone, so a value just above a bound is compared as the bound itself and accepted" % (
                "datetime" if kind == "datetime" else "non-date value", r)
        if kind == "date" and (r is x or not made):
            badt = "a plain date is returned unconverted: comparing it with datetime bounds raises TypeError"
    if badt:
        ctx.fail("R01.n", td, td.node, "_to_datetime: " + badt, key=td.qualname + "::moves-the-value", input="Date(bounds=(dt(2020,1,1), dt(2020,1,31))) <- dt(2020,1,31,0,0,0,5)")
    else:
        ctx.ok("R01.n", td, td.node, "3/3: datetimes and non-dates come back unchanged, plain dates are converted")

    # model-level rule, run last (see DESIGN §10)
    from checks import setter_model
    setter_model.report(ctx, "C01", "R01.m")
    from checks import update_model
    update_model.report(ctx, "C01", "R01.u")
    from checks import c01_types as _ct
    _ct.list_item_model(ctx, "R01.i")
    from checks import ctor_model
    ctor_model.report(ctx, "C01", "R01.o")
