"""C03 -- each change reaches each watcher once, in order, with true old/new
(necessary conditions only; DESIGN §3/C03)."""
from __future__ import annotations

import ast
import itertools

from engine.absint import TOP, Interp, Obj, Unsupported
from engine.cfg import cond_holds
from engine.effects import store_field
from engine.facts import calls_in, no_redefinition_between, reaching_defs, stores_in
from engine.hierarchy import PARAMETER
from engine.loader import AnalysisError, norm

P = "param.parameterized."


def sorted_by_precedence(expr) -> bool:
    if isinstance(expr, ast.Call) and norm(expr.func) == "sorted":
        for k in expr.keywords:
            if k.arg == "key":
                if isinstance(k.value, ast.Lambda) and isinstance(k.value.body, ast.Attribute) and k.value.body.attr == "precedence":
                    return not any(kk.arg == "reverse" and not (isinstance(kk.value, ast.Constant) and kk.value.value is False) for kk in expr.keywords)
                if isinstance(k.value, ast.Call) and norm(k.value.func) in ("attrgetter", "operator.attrgetter") and k.value.args \
                        and isinstance(k.value.args[0], ast.Constant) and k.value.args[0].value == "precedence":
                    return True
    return False


def run(ctx):
    ctx.rule("R03.q", "a change of a Parameter attribute (objects, bounds, ...) is announced with the assigned value: in Parameter.__setattr__ the third argument of _trigger_event is the `value` parameter itself, never a read-back through a property", floor=1)
    ctx.rule("R03.v", "slot-set model: Parameter.__setattr__ interpreted abstractly (watched slot / unwatched slot / default x the slot is being initialised / holds another object / already holds "
                      "the identical object): the value is stored once and the attribute's watchers are notified exactly once, with the previous and the assigned value, iff the slot held a value "
                      "before -- also when it is the identical object (the onlychanged filter is applied at dispatch, not here)", floor=1)
    ctx.rule("R03.w", "registration model, public calls: Parameters.watch and Parameters.watch_values interpreted with a distinct abstract value for every argument (names as list / single name x "
                      "queued x onlychanged x precedence): the Watcher handed to _register_watcher carries fn, the calling mode (args / kwargs), the names as a tuple, what, onlychanged, queued "
                      "and precedence exactly as given, and is the object returned", floor=1)
    ctx.rule("R03.y", "dispatch model, _execute_watcher: calling mode (args / kwargs) x synchronous / coroutine callback x Skip, for events whose parameters were assigned again since: an "
                      "args-mode callback receives the events, a kwargs-mode callback {name: the value that event installed}; coroutines are scheduled once; only Skip is swallowed", floor=1)
    ctx.rule("R03.z", "comparator model, is_equal: Comparator.is_equal interpreted on 15 pairs described by concrete type x registered kind (1 and 1.0, 2 and Fraction(2), True and 1, a "
                      "datetime and a Timestamp, two time-like objects, None, strings, containers, unregistered objects): two values of a common registered kind are compared by that kind's "
                      "equality whatever their concrete types; containers element-wise; anything else unequal", floor=1)
    ctx.rule("R03.s", "class route: a class-level assignment through a subclass notifies the class watchers only after the subclass shows the new value -- the per-class copy of an inherited "
                      "Parameter is installed in the class namespace before its __set__ (which dispatches) runs (shared with R13.e)", floor=1)
    ctx.rule("R03.i", "instance or class is decided by identity (shared with R12.v): no boolean-context use of the namespace's instance -- for an instance that is falsy (defines __len__ / "
                      "__bool__) update() and trigger() would assign on the CLASS, so the instance's watchers are never called", floor=40)
    ctx.rule("R03.l", "Event model (shared with R02.e): Event.__set__ interpreted on mode x outcome x the value assigned (True / False): every assignment in mode set-reset / set reaches the "
                      "superclass setter, which stores and dispatches -- `obj.e = False` included", floor=1)
    ctx.rule("R03.j", "who may take entries out of the batch queues: every function that rebinds `_state_watchers` / `_events` or removes from them in place is one of the queue managers "
                      "(discard_events, trigger, the flush); unwatch and the registration code do not touch what is already queued", floor=2)
    ctx.rule("R03.k", "every class and every instance has dispatch state of its own: _ClassPrivate.__init__ / _InstancePrivate.__init__ interpreted twice in one interpreter (module-level "
                      "objects shared, as at run time) store no container -- state dict, event queue, watcher queue, stores, tables -- that the other namespace holds too, at any depth", floor=1)
    ctx.rule("R03.r", "precedence is kept as given: Watcher.__new__ interpreted abstractly stores the precedence it is handed (an integer, a fraction, a negative internal one) unchanged and 0 "
                      "when none is given -- the dispatch order is the order of these numbers", floor=1)
    ctx.rule("R03.a", "every watcher dispatch in Parameter.__set__ is preceded on every path by the value store (or the constant-identity case); "
                      "the event carries old = the value read from the same storage just before the store and new = the stored binding; "
                      "Parameter.__setattr__ stores the slot before _trigger_event", floor=3)
    ctx.rule("R03.b", "both value-dispatch loops iterate sorted(watchers, key=precedence) (stable: registration order within a precedence)", floor=2)
    ctx.rule("R03.g", "assignments made by a queued callback are dispatched before the outer assignment returns: the flush loops until no event is left", floor=1)
    ctx.rule("R03.c", "Comparator: numbers/str/None/dates compare with operator.eq, is_equal routes containers to the recursive comparers and falls through to False; compare_iterator/compare_mapping, interpreted abstractly on 24 container pairs, answer True iff same type, same size/key set and pairwise-equal elements", floor=6)
    ctx.rule("R03.d", "_update_event_type: 'triggered' if triggered else 'changed' if onlychanged else 'set' (4 abstract cases, exhaustive)", floor=1)
    ctx.rule("R03.e", "_register_watcher appends to / removes from the table paths the setter and _trigger_event read", floor=3)
    ctx.rule("R03.f", "_call_watcher: a watcher is skipped iff (not TRIGGER and onlychanged and not changed); otherwise queued iff batching else executed (32 abstract cases, exhaustive)", floor=1)
    ctx.rule("R03.h", "flush model (abstract interpretation on small queues): every queued watcher runs exactly once in (precedence, queue position) order with the last event per watched parameter; cascaded events are delivered in a further round", floor=1)
    ctx.rule("R03.n", "the changes-only predicate is the comparator's verdict and nothing else: Parameters._changed interpreted abstractly on comparator says equal / different x old and new of the "
                      "same / of different types answers `changed` iff the comparator says different (1 -> 1.0 and 0 -> False are not changes)", floor=1)
    ctx.rule("R03.p", "registration model: Parameters._register_watcher interpreted abstractly (append / remove x instance / class x value / slot watcher x one / two parameters, with a second "
                      "registration of equal fields already in the list): append adds the watcher once at the end of the lists the dispatchers read, remove takes away exactly one equal registration", floor=1)
    ctx.rule("R03.x", "context-manager model (shared with R04.x/R05.x): after discard_events nothing the block produced is left in the queues and nothing queued before is lost, "
                      "also when the block replaced the queue objects (a trigger does) or raised", floor=1)
    ctx.rule("R03.m", "setter model: Parameter.__set__ interpreted abstractly on every combination (576) of route x constant/readonly x validation outcome x identity x reference mode x watchers x batching agrees with the specification of this property (see checks/setter_model.py)", floor=1)
    ctx.rule("R03.t", "trigger model: Parameters.trigger interpreted abstractly (instance/class x names incl. an Event and an unknown name x an event and a watcher queued before x the update dispatches / queues / raises, 96 cases): update runs once, with the trigger flag raised and the parked queues empty, on the current values; on exit the flag is lowered, earlier queue entries survive, no watcher is queued twice; the write-back is inside a _syncing scope", floor=1)
    ctx.rule("R03.u", "update model: Parameters._update (behind update/trigger) flushes exactly once when outermost, never inside an enclosing batch, and only after the batching flag is lowered again, so that watchers called by the flush dispatch their own assignments depth-first", floor=1)
    ctx.not_decided += ["exactly-once delivery counts, depth-first cascades and queued semantics over all programs (need an executable reference semantics)"]

    f = ctx.repo.method(PARAMETER, "__set__")
    cfg = ctx.facts.cfg(f)
    aliases = ctx.facts.local_aliases(f)
    stores = [n for n in cfg.live_nodes() for t in stores_in(n)
              if store_field(ctx.facts, t, aliases) in ("private.values", "self.default") and not isinstance(n.ast, ast.Delete)]
    disp = [n for n in cfg.live_nodes() for c in calls_in(n) if isinstance(c.func, ast.Attribute) and c.func.attr == "_call_watcher"]
    ctx.require(disp and stores, "dispatch or store sites of Parameter.__set__ not found")
    # path conditions over the atoms that decide the store-free route (enumerated valuations, engine/pathcond.py): a dispatch
    # may be reached without a store only when the assigned object is the very object already held (`val is <current>`)
    from engine import pathcond
    atoms = sorted({a for n in cfg.live_nodes() if n.kind == "br" and n.ast is not None for a in pathcond.atoms_in(n.ast)
                    if a.startswith("val is ") or a in ("self.constant", "self.readonly", "obj is None", "obj._param__private.initialized")})
    if len(atoms) > 12:
        raise AnalysisError("R03.a: too many path atoms in Parameter.__set__ (%d)" % len(atoms))
    ident_atoms = [i for i, a in enumerate(atoms) if a.startswith("val is ") and a != "val is None" and a != "val is Undefined"]
    store_ids = {n.id for n in stores}
    state = pathcond.reaching(cfg, atoms, stop=lambda n: n.id in store_ids)
    for d in disp:
        vals = state.get(d.id, set())
        loose = [v for v in vals if not any(v[i] for i in ident_atoms)]
        if loose:
            p = cfg.path(cfg.entry, d, avoid=lambda n: n.id in store_ids) or [d]
            ctx.fail("R03.a", f, d, "watchers can be dispatched on a path that has not stored the new value yet: the callback sees the old value on the object "
                                    "(path conditions that allow it: %s)" % ", ".join("%s=%s" % (a, x) for a, x in zip(atoms, loose[0])),
                     witness=cfg.witness(p))
        else:
            ctx.ok("R03.a", f, d, "dispatch is preceded by the store on every path, or the assigned object is the very object already held")
    # old/new of the event
    evs = [(n, c) for n in cfg.live_nodes() for c in calls_in(n) if norm(c.func) == "Event"]
    ctx.require(evs, "Event construction in Parameter.__set__ not found")
    en, ec = evs[0]
    kw = {k.arg: k.value for k in ec.keywords}
    oldn, newn = kw.get("old"), kw.get("new")
    if not (isinstance(oldn, ast.Name) and isinstance(newn, ast.Name)):
        ctx.fail("R03.a", f, en, "the event's old/new are not plain bindings (%s, %s)" % (norm(oldn), norm(newn)))
    else:
        good = True
        for s in stores:
            rhs = s.ast.value
            if not (isinstance(rhs, ast.Name) and rhs.id == newn.id and no_redefinition_between(cfg, s, en, newn.id)):
                good = False
                ctx.fail("R03.a", f, s, "the event's `new` (%s) is not the binding that `%s` stored" % (newn.id, s.text()))
            # the old value is read from the same storage immediately before
            fld = [store_field(ctx.facts, t, aliases) for t in stores_in(s)][0]
            olds = [m for m in cfg.live_nodes() if m.kind == "stmt" and isinstance(m.ast, ast.Assign)
                    and any(isinstance(t, ast.Name) and t.id == oldn.id for t in m.ast.targets) and cfg.dominates(m, s)]
            src_ok = False
            for m in olds:
                txt = norm(m.ast.value)
                if fld == "self.default" and txt == "self.default":
                    src_ok = True
                if fld == "private.values" and "_param__private.values.get(" in txt and txt.endswith("self.default)"):
                    src_ok = True
            last = max(olds, key=lambda m: m.lineno) if olds else None
            if not (src_ok and last is not None and norm(last.ast.value) != "NotImplemented" and no_redefinition_between(cfg, last, en, oldn.id)):
                good = False
                ctx.fail("R03.a", f, s, "the event's `old` (%s) is not read from the storage that `%s` overwrites, just before the store" % (oldn.id, s.text()))
        if good:
            ctx.ok("R03.a", f, en, "Event(old=%s, new=%s): old read from the overwritten storage before each of the %d stores, new is the stored binding" % (oldn.id, newn.id, len(stores)))
    sa = ctx.repo.method(PARAMETER, "__setattr__")
    sc = ctx.facts.cfg(sa)
    trig = [n for n in sc.live_nodes() for c in calls_in(n) if isinstance(c.func, ast.Attribute) and c.func.attr == "_trigger_event"]
    sup = [n for n in sc.live_nodes() for c in calls_in(n) if isinstance(c.func, ast.Attribute) and c.func.attr == "__setattr__"
           and isinstance(c.func.value, ast.Call) and norm(c.func.value.func) == "super"]
    ctx.require(trig and sup, "Parameter.__setattr__ anchors not found")
    for t in trig:
        if any(sc.dominates(s, t) for s in sup):
            ctx.ok("R03.a", sa, t, "slot stored before its watchers are triggered")
        else:
            ctx.fail("R03.a", sa, t, "_trigger_event can run before the slot was stored")

    # ------------------------------------------------------------- R03.b / R03.g
    from checks.shared import dispatch_loops_sorted, flush_drains
    dispatch_loops_sorted(ctx, "R03.b", ((P + "Parameter.__set__", "_call_watcher"), (P + "Parameters._batch_call_watchers", "_execute_watcher")))
    flush_drains(ctx, "R03.g")

    # ------------------------------------------------------------- R03.c
    comp = ctx.repo.cls(P + "Comparator")
    eqs = comp.class_assign("equalities")
    gen = comp.class_assign("gen_equalities")
    ctx.require(isinstance(eqs, ast.Dict) and isinstance(gen, ast.Dict), "Comparator tables are no longer dict literals")
    table = {norm(k): norm(v) for k, v in zip(eqs.keys, eqs.values)}
    gtable = {norm(k): norm(v) for k, v in zip(gen.keys, gen.values)}
    for key in ("numbers.Number", "str", "type(None)"):
        if table.get(key) == "operator.eq":
            ctx.ok("R03.c", P + "Comparator", eqs, "%s compares with operator.eq" % key)
        else:
            ctx.fail("R03.c", P + "Comparator", eqs, "Comparator.equalities maps %s to %s (operator.eq required: equal values must not look changed, different ones must)" % (key, table.get(key)),
                     key=P + "Comparator::equalities::" + key)
    if gtable.get("_dt_types") == "operator.eq":
        ctx.ok("R03.c", P + "Comparator", gen, "dates compare with operator.eq")
    else:
        ctx.fail("R03.c", P + "Comparator", gen, "Comparator.gen_equalities no longer maps _dt_types to operator.eq", key=P + "Comparator::gen_equalities")
    ie = ctx.repo.method(P + "Comparator", "is_equal")
    bad = False
    routes = set()
    for st in ast.walk(ie.node):
        if isinstance(st, ast.Return):
            v = st.value
            if isinstance(v, ast.Constant) and v.value is False:
                continue
            if isinstance(v, ast.Call) and norm(v.func) in ("eq",):
                continue
            if isinstance(v, ast.Call) and norm(v.func) in ("cls.compare_iterator", "cls.compare_mapping"):
                routes.add(norm(v.func))
                continue
            bad = True
            ctx.fail("R03.c", ie, st, "Comparator.is_equal returns `%s` on a fall-through: an unknown pair of values can be reported equal, suppressing a genuine change" % norm(v))
    last = ie.node.body[-1]
    if not (isinstance(last, ast.Return) and isinstance(last.value, ast.Constant) and last.value.value is False):
        bad = True
        ctx.fail("R03.c", ie, last, "the final fall-through of Comparator.is_equal is not `return False`")
    if routes != {"cls.compare_iterator", "cls.compare_mapping"}:
        bad = True
        ctx.fail("R03.c", ie, ie.node, "is_equal no longer routes list/set/tuple and dict to the recursive comparers")
    if not bad:
        ctx.ok("R03.c", ie, ie.node, "all returns are eq(...), a recursive comparer or False; final fall-through is False")
    from checks.shared import comparator_model
    comparator_model(ctx, "R03.c")

    # ------------------------------------------------------------- R03.d
    ue = ctx.repo.func(P + "Parameters._update_event_type")
    n = 0
    bad = []
    for trig_, oc, differs in itertools.product([True, False], repeat=3):
        # `differs`: what the comparator says about old / new (a trigger re-announces the current value, but NaN, Event
        # values and objects without an equality the comparator knows are "changed" even when old is new)
        ev = Obj("event", what="value", name="x", obj=None, cls=None, old=1, new=2, type=None)

        def hook_d(fn, args, kwargs, differs=differs):
            if fn.endswith("._changed"):
                return differs
            return NotImplemented
        it = Interp(ctx.hier, self_obj=None, call_hook=hook_d, strict_self_calls=True)
        try:
            outs = it.run_all(ue, {"self_": Obj("ns"), "watcher": Obj("watcher", onlychanged=oc), "event": ev, "triggered": trig_})
        except Unsupported as e:
            raise AnalysisError("absint cannot interpret _update_event_type: %s" % e)
        n += 1
        want = "triggered" if trig_ else ("changed" if oc else "set")
        for o in outs:
            if o.imprecise:
                raise AnalysisError("absint imprecise on _update_event_type: %s" % o.notes)
            got = getattr(o.value, "kwargs", {}).get("type") if o.kind == "return" else None
            passthru = all(getattr(o.value, "kwargs", {}).get(k) == ev.attrs[k] for k in ("what", "name", "old", "new")) if o.kind == "return" else False
            if got != want or not passthru:
                bad.append((trig_, oc, got, want))
    ctx.abstract_cases += n
    if bad:
        ctx.fail("R03.d", ue, ue.node, "event type table wrong: (triggered=%s, onlychanged=%s) gives %r, expected %r (or old/new/name are not passed through)" % bad[0],
                 key=ue.qualname + "::event-type-table")
    else:
        ctx.ok("R03.d", ue, ue.node, "8/8 abstract cases agree (triggered x changes-only x whatever the comparator says about old/new); old/new/name/what passed through unchanged")

    # ------------------------------------------------------------- R03.e
    rw = ctx.repo.func(P + "Parameters._register_watcher")
    rc = ctx.facts.cfg(rw)
    ra = ctx.facts.local_aliases(rw)
    acts = [n for n in rc.live_nodes() for c in calls_in(n) if isinstance(c.func, ast.Call) and norm(c.func.func) == "getattr"
            and len(c.func.args) == 2 and norm(c.func.args[1]) == "action"]
    if not acts:
        ctx.info("R03.e", rw, rw.node, "_register_watcher no longer applies `action` through getattr(<list>, action): the path agreement is not decided structurally; "
                                       "the registration model (R03.p) decides which lists are written")
    else:
        inst_ok = cls_ok = False

        def table_path(n_, tgt):
            """(root expression(s) by reaching definitions, index texts outermost-first)."""
            idx = []
            root = tgt
            while isinstance(root, ast.Subscript):
                idx.append(norm(root.slice))
                root = root.value
            roots = [root]
            if isinstance(root, ast.Name):
                roots = [d.ast.value for d in reaching_defs(rc, n_, root.id) if d.kind == "stmt" and isinstance(d.ast, ast.Assign)]
            return roots, list(reversed(idx))
        # (node whose path conditions apply, expression of the list the action is applied to)
        items = []
        for n_ in acts:
            c = [c for c in calls_in(n_) if isinstance(c.func, ast.Call)][0]
            tgt = c.func.args[0]
            if isinstance(tgt, ast.Name):
                for d in reaching_defs(rc, n_, tgt.id):
                    if d.kind == "stmt" and isinstance(d.ast, ast.Assign):
                        items.append((d, d.ast.value))
            else:
                items.append((n_, tgt))
        # names used by the function itself (so that renaming locals does not matter)
        what_param = rw.params[3] if len(rw.params) > 3 else "what"
        loop_vars = [norm(lp.target) for lp in ast.walk(rw.node) if isinstance(lp, ast.For)]
        pn = loop_vars[0] if loop_vars else "parameter_name"
        for n_, expr in items:
            roots, idx = table_path(n_, expr)
            conds = rc.conditions(n_)
            if cond_holds(conds, "%s == 'value'" % what_param, True) and cond_holds(conds, "self_.self is not None", True):
                if roots and all(ctx.facts.field_of(r, {}) == "private.watchers" for r in roots) and idx == [pn, what_param]:
                    inst_ok = True
            else:
                if roots and all(norm(r) == "self_[%s].watchers" % pn for r in roots) and idx == [what_param]:
                    cls_ok = True
        srd = [a for a in ast.walk(f.node) if isinstance(a, ast.Subscript) and ctx.facts.field_of(a.value, aliases) == "private.watchers" and norm(a.slice) == "name"]
        get_value = any(isinstance(c, ast.Call) and isinstance(c.func, ast.Attribute) and c.func.attr == "get" and c.args and norm(c.args[0]) in ("'value'",)
                        for c in ast.walk(f.node))
        if inst_ok and srd and get_value:
            ctx.ok("R03.e", rw, acts[0], "instance value watchers: registered in and dispatched from <inst>._param__private.watchers[name]['value']")
        else:
            ctx.fail("R03.e", rw, acts[0], "instance value watchers are registered in a table path the setter does not read (or vice versa)")
        cls_read = any(norm(a) == "self.watchers" for a in ast.walk(f.node) if isinstance(a, ast.Attribute))
        te = ctx.repo.method(PARAMETER, "_trigger_event")
        slot_read = any(norm(a) == "self.watchers[attribute]" for a in ast.walk(te.node) if isinstance(a, ast.Subscript))
        if cls_ok and cls_read:
            ctx.ok("R03.e", rw, acts[-1], "class/slot watchers: registered in <Parameter>.watchers[what]; the setter reads self.watchers")
        else:
            ctx.fail("R03.e", rw, acts[-1], "class-level/slot watchers are registered in a table path the dispatchers do not read")
        (ctx.ok if slot_read else ctx.fail)("R03.e", te, te.node, "_trigger_event iterates self.watchers[attribute]" if slot_read else "_trigger_event does not read self.watchers[attribute]")

    # ------------------------------------------------------------- R03.f
    from checks.dispatch_model import call_watcher_outcome
    cw = ctx.repo.func(P + "Parameters._call_watcher")
    n = 0
    bad = []
    for trig_, oc, changed, batch, queued in itertools.product([True, False], repeat=5):
        got, ns, w, _ = call_watcher_outcome(ctx, trig_, oc, changed, batch, queued=queued)
        n += 1
        skip = (not trig_) and oc and (not changed)
        want = "skip" if skip else ("queue" if batch else "execute")
        if got != want:
            bad.append((trig_, oc, changed, batch, got, want))
    # a separately registered watcher with equal fields is already queued: this one must be queued as well
    for pq in ("twin", "other"):
        got, ns, w, _ = call_watcher_outcome(ctx, False, False, True, True, prequeued=pq)
        n += 1
        sw = ns.attrs["_state_watchers"]
        if not (got == "queue" and len(sw) == 2 and sw[-1] is w):
            ctx.fail("R03.f", cw, cw.node, "while batching, a watcher is not queued because %s is already in the queue: that registration "
                     "is never called for this change" % ("a separate registration with equal fields" if pq == "twin" else "another watcher"),
                     key=cw.qualname + "::not-queued-behind-" + pq,
                     input="obj.param.watch(cb, 'x'); obj.param.watch(cb, 'x'); obj.param.update(x=1) -> cb must run twice")
    ctx.abstract_cases += n
    ctx.exhaustive = True
    if bad:
        ctx.fail("R03.f", cw, cw.node, "dispatch decision wrong for (TRIGGER=%s, onlychanged=%s, changed=%s, batching=%s): code does `%s`, specification `%s`" % bad[0])
    else:
        ctx.ok("R03.f", cw, cw.node, "32/32 abstract cases agree with the specification")

    # ------------------------------------------------------------- R03.n
    from engine.absint import Interp as _I, Obj as _O, Unsupported as _U
    ch = ctx.repo.func(P + "Parameters._changed")
    badn = None
    for equal, same_type in itertools.product([True, False], repeat=2):
        old_v, new_v = _O("old_value", kind="int"), _O("new_value", kind="int" if same_type else "float")

        def hook_n(fn, args, kwargs, equal=equal):
            if fn == "Comparator.is_equal" and len(args) == 2:
                return equal
            if fn == "type" and len(args) == 1 and isinstance(args[0], _O):
                return args[0].attrs.get("kind")
            if fn == "isinstance":
                return True
            return NotImplemented
        it_n = _I(ctx.hier, dyn=P + "Parameters", inline=lambda m: True, call_hook=hook_n, strict_self_calls=True)
        try:
            outs = it_n.run_all(ch, {ch.params[0]: _O("ns"), ch.params[1]: _O("event", old=old_v, new=new_v)})
        except _U as e:
            raise AnalysisError("absint cannot interpret Parameters._changed: %s -- R03.n cannot decide" % e)
        ctx.abstract_cases += 1
        if len(outs) != 1 or outs[0].imprecise or outs[0].kind != "return" or outs[0].value not in (True, False):
            raise AnalysisError("absint imprecise on Parameters._changed -- R03.n cannot decide")
        if outs[0].value is not (not equal):
            badn = (equal, same_type, outs[0].value)
    if badn:
        ctx.fail("R03.n", ch, ch.node, "Parameters._changed answers %s for values the comparator calls %s (%s type): %s" % (
            badn[2], "equal" if badn[0] else "different", "same" if badn[1] else "different",
            "a changes-only watcher is called although the value did not change (1 -> 1.0, 0 -> False)" if badn[2] else "a genuine change is not announced to changes-only watchers"),
            key=ch.qualname + "::changed-predicate", input="p.x = 1; p.x = 1.0 -> a changes-only watcher is called with type='changed'")
    else:
        ctx.ok("R03.n", ch, ch.node, "4/4: changed iff the comparator says different")

    from checks.shared import slot_event_carries_assigned_value
    slot_event_carries_assigned_value(ctx, "R03.q")
    from checks.shared import slot_set_model
    slot_set_model(ctx, "R03.v")
    from checks import register_model
    register_model.report(ctx, "R03.p")
    register_model.report_api(ctx, "R03.w")
    from checks import dispatch_model
    dispatch_model.execute_watcher_model(ctx, "R03.y")
    from checks.shared import is_equal_model
    is_equal_model(ctx, "R03.z")
    from checks.c13 import class_set_after_install
    class_set_after_install(ctx, "R03.s")
    from checks.shared import watcher_new_model
    watcher_new_model(ctx, "R03.r")
    from checks.shared import fresh_private_state
    fresh_private_state(ctx, "R03.k")
    from checks.shared import instance_tested_by_identity
    instance_tested_by_identity(ctx, "R03.i")
    queue_rewriters(ctx, "R03.j")
    from checks.shared import event_model
    event_model(ctx, "R03.l", "C03")

    # the model-level rule comes last: if the interpreter cannot follow an edited flush,
    # the structural findings above are still reported
    from checks.shared import flush_model
    flush_model(ctx, "R03.h")

    # model-level rule, run last (see DESIGN §10)
    from checks import setter_model
    setter_model.report(ctx, "C03", "R03.m")
    from checks import trigger_model
    trigger_model.report(ctx, "C03", "R03.t")
    from checks import cm_model
    cm_model.report(ctx, "C03", "R03.x")
    from checks import update_model
    update_model.report(ctx, "C03", "R03.u")


QUEUE_REWRITERS = {
    "param.parameterized.discard_events": "puts back the queues it saved on entry (drops what the block queued)",
    "param.parameterized.Parameters.trigger": "parks the queues around its own update and merges them back afterwards",
    "param.parameterized.Parameters._batch_call_watchers": "drains the queues it is about to deliver",
}


def queue_rewriters(ctx, rule):
    """Who may take something OUT of the batch queues: a watcher queued for an event that happened is owed its call.  Every
    function that rebinds `_state_watchers` / `_events` (assignment, augmented assignment) or removes from them in place
    (remove / pop / clear / del) must be in the frozen table of queue managers; `_call_watcher` only appends."""
    found = {}
    for f in ctx.repo.all_funcs("param"):
        if f.name in ("_state_watchers", "_events"):
            continue            # the property pair itself
        for st in ast.walk(f.node):
            hit = None
            if isinstance(st, (ast.Assign, ast.AugAssign, ast.AnnAssign)):
                targets = st.targets if isinstance(st, ast.Assign) else [st.target]
                for t in targets:
                    for x in ast.walk(t):
                        if isinstance(x, ast.Attribute) and isinstance(x.ctx, ast.Store) and x.attr in ("_state_watchers", "_events"):
                            hit = x
                        if isinstance(x, ast.Subscript) and isinstance(x.ctx, ast.Store) and isinstance(x.value, ast.Attribute) and x.value.attr in ("_state_watchers", "_events"):
                            hit = x.value
            if isinstance(st, ast.Call) and isinstance(st.func, ast.Attribute) and st.func.attr in ("remove", "pop", "clear", "__delitem__") \
                    and isinstance(st.func.value, ast.Attribute) and st.func.value.attr in ("_state_watchers", "_events"):
                hit = st.func.value
            if isinstance(st, ast.Delete):
                for t in st.targets:
                    if isinstance(t, ast.Subscript) and isinstance(t.value, ast.Attribute) and t.value.attr in ("_state_watchers", "_events"):
                        hit = t.value
            if hit is not None:
                found.setdefault(f.qualname, (f, st))
    ctx.require(len(found) >= 2, "fewer than 2 functions rewrite the batch queues (%d): the who-may-rewrite rule lost its instances" % len(found))
    for q, (f, st) in sorted(found.items()):
        if q in QUEUE_REWRITERS:
            ctx.ok(rule, f, st, "queue manager: %s" % QUEUE_REWRITERS[q])
        else:
            ctx.fail(rule, f, st, "%s rewrites the batch queue (`%s`): only the queue managers (discard_events, trigger, the flush) may take entries out -- a watcher that was queued for an event "
                                  "that happened is owed exactly one call before the outermost assignment returns, also when it is unregistered in the meantime" % (
                                      f.qualname.rsplit(".", 1)[-1], norm(st)[:70]), key="%s::rewrites-the-queue" % q,
                     input="a queued=True callback assigns y and then unwatches one of y's watchers: that watcher never receives the event")
