"""Constructor model: Parameters._setup_params (with _instantiate_param) interpreted abstractly.

Class under construction: parameters `plain`, `lst` (instantiate=True, mutable
default), `const` (constant=True), `cboth` (constant and instantiate),
`linked` (allow_refs=True), `mlinked` (allow_refs=True and instantiate=True,
mutable default) and `name`.

Keyword arguments: every subset of {a plain value for `plain`, a value for
`lst`, and for each of `linked` / `mlinked` one of: a plain value, a reference
that resolves to a value, a reference that has no value yet (Skip/Undefined),
an asynchronous reference}, plus an unknown keyword.

Specification (C12 / C14 / C08 / C10):
* before any keyword is applied, the instance store holds a fresh copy of the
  default of every instantiate=True parameter and the very default object of
  every other constant parameter -- whatever keywords were given;
* a keyword of a parameter without allow_refs is assigned as it is; with
  allow_refs the resolved value is assigned iff the reference is synchronous
  and has a value; nothing else is assigned;
* every reference (and only references) is returned in refs/deps;
* an unknown keyword raises TypeError.
"""
from __future__ import annotations

import itertools

from engine.absint import Interp, Obj, PyFunc, Unsupported, _Raise
from engine.loader import AnalysisError

P = "param.parameterized."


def run_case(ctx, f, kw_plain, kw_lst, mode_linked, mode_mlinked, unknown):
    d = {k: Obj("default_of_" + k) for k in ("plain", "lst", "const", "cboth", "linked", "mlinked", "tup")}
    d["tup"].attrs["__pytype__"] = "tuple"        # a tuple holding mutable parts: immutable itself, not its contents
    d["lst"].attrs["__pytype__"] = d["mlinked"].attrs["__pytype__"] = d["cboth"].attrs["__pytype__"] = "list"
    mk = lambda n, **a: Obj("P_" + n, name=n, default=d[n], instantiate=a.get("instantiate", False), constant=a.get("constant", False), readonly=False,
                            allow_refs=a.get("allow_refs", False), owner=Obj("Cls"))
    params = {
        "name": Obj("P_name", name="name", default="Cls", instantiate=False, constant=True, readonly=False, allow_refs=False, owner=Obj("Cls")),
        "plain": mk("plain"), "lst": mk("lst", instantiate=True), "const": mk("const", constant=True),
        "cboth": mk("cboth", constant=True, instantiate=True), "linked": mk("linked", allow_refs=True),
        "mlinked": mk("mlinked", allow_refs=True, instantiate=True),
        "tup": mk("tup", instantiate=True),
        # constant AND instantiate=True with a None default (what a constant List / Dict parameter left at None is)
        "cbnone": Obj("P_cbnone", name="cbnone", default=None, instantiate=True, constant=True, readonly=False, allow_refs=False, owner=Obj("Cls")),
        # a constant whose default is None: "nothing yet" is a value too, and must be pinned like any other
        "cnone": Obj("P_cnone", name="cnone", default=None, instantiate=False, constant=True, readonly=False, allow_refs=False, owner=Obj("Cls")),
    }
    values = {}
    inst = Obj("instance", _param__private=Obj("private", values=values, initialized=False))
    copies = {}

    def deepcopy(o, *a):
        if not isinstance(o, Obj):
            return o                       # None, numbers, strings: a deep copy is the object itself
        c = Obj("copy_of_" + getattr(o, "name", repr(o)))
        copies[id(c)] = o
        return c
    sets = []
    UNDEF, SKIP = Obj("Undefined"), Obj("Skip")
    given = {}
    vals = {}
    if kw_plain == "default-object":
        given["plain"] = vals["plain"] = d["plain"]          # the keyword restates the class default: the very same object
    elif kw_plain:
        given["plain"] = vals["plain"] = Obj("value_for_plain")
    if kw_lst:
        given["lst"] = vals["lst"] = Obj("value_for_lst")
    refinfo = {}
    for nme, mode in (("linked", mode_linked), ("mlinked", mode_mlinked)):
        if mode is None:
            continue
        v = Obj("%s_argument_%s" % (nme, mode))
        given[nme] = v
        if mode == "value":
            refinfo[id(v)] = (None, None, v, False)
        elif mode == "ref":
            refinfo[id(v)] = (v, [Obj("dep_of_" + nme)], Obj("resolved_value_of_" + nme), False)
        elif mode == "ref-novalue":
            refinfo[id(v)] = (v, [Obj("dep_of_" + nme)], UNDEF, False)
        elif mode == "ref-skip":
            refinfo[id(v)] = (v, [Obj("dep_of_" + nme)], SKIP, False)
        elif mode == "async":
            refinfo[id(v)] = (v, [], None, True)
    if unknown:
        given["zzz"] = Obj("value_for_unknown")
    ns = Obj("ns", self=inst, cls=Obj("Cls", __name__="Cls", _param__private=Obj("class_private", explicit_no_refs=["plain", "lst"])),
             _cls_parameters=dict(params))
    snapshot = {}
    linked_early = []

    def hook(fn, args, kwargs):
        if fn == "setattr" and len(args) == 3:
            if not snapshot:
                snapshot.update(values)      # the store as it was when the first keyword was applied
                snapshot["__taken__"] = True
            sets.append((args[1], args[2]))
            if args[0] is inst:
                values[args[1]] = args[2]
            return None
        if fn.endswith(".get_param_descriptor") and args:
            return (params.get(args[0]), Obj("Cls")) if args[0] in params else (None, None)
        if fn in ("self_._update_ref", "self_._setup_refs") or fn.endswith(".param._watch"):
            linked_early.append(fn)
            return None
        if fn == "self_._resolve_ref" and len(args) == 2:
            if id(args[1]) in refinfo:
                return refinfo[id(args[1])]
            return (None, None, args[1], False)
        if fn == "isinstance" and len(args) == 2:
            spec = args[1] if isinstance(args[1], (tuple, list)) else (args[1],)
            pt = args[0].attrs.get("__pytype__") if isinstance(args[0], Obj) else ("NoneType" if args[0] is None else None)
            if pt is not None and any(t == "<type %s>" % pt for t in spec):
                return True
            if args[0] is None and any(t in ("<type NoneType>",) for t in spec):
                return True
            return False
        if fn == "type" and len(args) == 1 and args[0] is None:
            return "<type NoneType>"
        if fn in ("warnings.warn",):
            return None
        return NotImplemented
    g = {"copy": Obj("copy_module", deepcopy=PyFunc("copy.deepcopy", deepcopy)), "Undefined": UNDEF, "Skip": SKIP,
         "shared_parameters": Obj("shared_parameters", _share=False, _shared_cache={}), "object_count": 0}
    it = Interp(ctx.hier, dyn=P + "Parameters", inline=lambda m: True, call_hook=hook, globals=g, strict_self_calls=True, inline_module_functions=True)
    outs = it.run_all(f, {"self_": ns, "params": dict(given)})
    if len(outs) != 1 or outs[0].imprecise:
        raise AnalysisError("constructor model: Parameters._setup_params is not interpretable precisely (%s)" % (outs[0].notes[:2] if outs else "no outcome"))
    if not snapshot:
        snapshot.update(values)
    values["__linked_early__"] = list(linked_early)
    return outs[0], values, snapshot, sets, given, refinfo, d, copies, (UNDEF, SKIP)


MODES = [None, "value", "ref", "ref-novalue", "ref-skip", "async"]


def model(ctx):
    f = ctx.repo.func(P + "Parameters._setup_params")
    problems = {"C12": [], "C14": [], "C08": [], "C10": [], "C01": [], "C05": [], "C02": []}
    n = 0
    for kw_plain, kw_lst, ml, mm, unknown in itertools.product([False, True, "default-object"], [False, True], MODES, MODES, [False, True]):
        try:
            o, values, snap, sets, given, refinfo, d, copies, (UNDEF, SKIP) = run_case(ctx, f, kw_plain, kw_lst, ml, mm, unknown)
        except Unsupported as e:
            raise AnalysisError("constructor model: absint cannot interpret Parameters._setup_params: %s" % e)
        n += 1
        early = values.pop("__linked_early__", [])
        desc = "Cls(%s)" % ", ".join("%s=<%s>" % (k, (ml if k == "linked" else mm if k == "mlinked" else "value")) for k in given)
        if early:
            problems["C02"].append("%s: a link is installed (%s) while later keywords are still to be validated: when one of them is rejected the construction raises, yet the source object keeps a "
                                   "watcher on behalf of the discarded instance (and that watcher raises on the next valid assignment of the source)" % (desc, early[0]))
            problems["C05"].append("%s: while the keywords are still being applied the constructor already installs a link (%s): when a later keyword is rejected, the source object keeps a "
                                   "watcher on behalf of the half-built instance, which then runs (and may raise) on every later assignment of the source" % (desc, early[0]))
        if unknown:
            if o.kind != "raise":
                problems["C01"].append("%s: an unknown keyword does not raise" % desc)
            continue
        if o.kind != "return":
            problems["C01"].append("%s: the constructor raises %s" % (desc, getattr(o, "what", "?")))
            continue
        # ---- the store before the keywords: copies and pinned constants
        for k in ("lst", "cboth", "mlinked", "tup"):
            v = snap.get(k)
            if not (isinstance(v, Obj) and copies.get(id(v)) is d[k]):
                problems["C12"].append("%s: before the keywords are applied the instance does not hold its own copy of the mutable default of `%s` (it holds %r): "
                                       "if the keyword then assigns nothing, in-place mutation reaches the class default" % (desc, k, v))
        if snap.get("const") is not d["const"]:
            problems["C14"].append("%s: the constant parameter `const` is not pinned to the default object on the instance (store holds %r): a later class-level set rebinds it" % (desc, snap.get("const")))
        if "cnone" not in snap or snap["cnone"] is not None:
            problems["C14"].append("%s: the constant parameter `cnone` (default None) is not pinned on the instance (%s): the instance follows a later class-level set" % (
                desc, "store holds %r" % (snap["cnone"],) if "cnone" in snap else "nothing stored"))
        if "cbnone" not in snap or snap["cbnone"] is not None:
            problems["C14"].append("%s: the constant parameter `cbnone` (instantiate=True, default None) is not pinned on the instance (%s): the instance follows a later class-level set" % (
                desc, "store holds %r" % (snap["cbnone"],) if "cbnone" in snap else "nothing stored"))
        for k in ("plain", "linked"):
            if k in snap:
                problems["C12"].append("%s: `%s` is written into the instance store although it was not given: the instance stops following the class default" % (desc, k))
        # ---- what the keywords assign
        want_sets = []
        for k, v in given.items():
            if k in ("plain", "lst"):
                want_sets.append((k, v))
            else:
                ref, deps, resolved, is_async = refinfo[id(v)]
                if not is_async and resolved is not UNDEF and resolved is not SKIP:
                    want_sets.append((k, resolved))
        if [(a, id(b)) for a, b in sets] != [(a, id(b)) for a, b in want_sets]:
            problems["C08"].append("%s: the constructor assigns %s, specification %s" % (desc, [(a, getattr(b, "name", b)) for a, b in sets], [(a, b.name) for a, b in want_sets]))
            lost = [(a, b) for a, b in want_sets if not any(a == x and b is y for x, y in sets)]
            if lost:
                problems["C01"].append("%s: the value given for `%s`%s never reaches the validating setter: on the constructor route it is accepted without validation (a class "
                                       "default need not satisfy the constraints in force: None defaults, constraints tightened later)" % (
                                           desc, lost[0][0], " (the very object the class default is)" if kw_plain == "default-object" and lost[0][0] == "plain" else ""))
        # an instantiate=True parameter whose keyword assigned nothing keeps its private copy
        if "mlinked" in given and not any(a == "mlinked" for a, _ in want_sets):
            v = values.get("mlinked")
            if not (isinstance(v, Obj) and copies.get(id(v)) is d["mlinked"]):
                problems["C12"].append("%s: the reference given for `mlinked` has no value yet, and the instance is left with %r instead of its own copy of the mutable default" % (desc, v))
        # ---- refs / deps returned
        want_refs = {k: refinfo[id(v)][0] for k, v in given.items() if k in ("linked", "mlinked") and refinfo[id(v)][0] is not None}
        got = o.value
        if not (isinstance(got, tuple) and len(got) == 2 and isinstance(got[0], dict) and isinstance(got[1], dict)):
            if early or not want_refs:
                continue          # the references are linked on the spot instead of being returned (reported above, C05); or there is none to record
            raise AnalysisError("constructor model: _setup_params returns %r, not (refs, deps)" % (got,))
        refs, deps = got
        if set(refs) != set(want_refs) or any(refs[k] is not want_refs[k] for k in want_refs):
            msg = "%s: the references recorded are %s, specification %s (an unrecorded reference gets no watcher and cannot be cancelled by a later assignment)" % (
                desc, sorted(refs), sorted(want_refs))
            problems["C08"].append(msg)
            problems["C10"].append(msg)
        elif set(deps) != set(want_refs):
            problems["C08"].append("%s: dependencies are recorded for %s, references for %s" % (desc, sorted(deps), sorted(refs)))
    return n, problems


def report(ctx, prop, rule):
    # one model run per check run (never keyed by id(): ids are reused after garbage collection)
    memo = ctx.__dict__.setdefault('_model_memo', {})
    if 'ctor_model' not in memo:
        memo['ctor_model'] = model(ctx)
    n, problems = memo['ctor_model']
    f = ctx.repo.func(P + "Parameters._setup_params")
    ctx.abstract_cases += n
    bad = problems[prop]
    if not bad:
        ctx.ok(rule, f, f.node, "constructor model, %d abstract cases (keywords x reference modes): agrees with the specification" % n)
    else:
        ctx.fail(rule, f, f.node, "constructor model: %s (%d disagreeing observation(s))" % (bad[0], len(bad)), key="%s::constructor-model::%s" % (f.qualname, prop))
