"""C19 -- time-dependent dynamic values are a pure function of time (DESIGN §3/C19)."""
from __future__ import annotations

import ast
import itertools

from engine.absint import HI, LO, TOP, Interp, Obj, Unsupported
from engine.effects import walk_stmts
from engine.facts import calls_in
from engine.loader import AnalysisError, norm

RD = "numbergen.RandomDistribution"
TARS = "numbergen.TimeAwareRandomState"
DYN = "param.parameters.Dynamic"
SEED_INPUTS = {"self._hashfn", "self.time_fn", "param.random_seed", "self.seed", "self.name"}


def run(ctx):
    ctx.rule("R19.h", "the times saved by open `with time:` contexts are touched only by the context protocol: the only writers of Time._pushed_state are __init__ (empty), __enter__ (push) and __exit__ (pop); nothing else rewrites what a context will restore", floor=2)
    ctx.rule("R19.w", "who may write the per-generator state: _Dynamic_last / _Dynamic_time only in Dynamic._initialize_generator, Dynamic._produce_value (paired, R19.c) and "
                      "Parameters._state_pop; _Dynamic_time_fn only in _initialize_generator and Parameters.set_dynamic_time_fn", floor=8)
    ctx.rule("R19.t", "time-fn model: Parameters.set_dynamic_time_fn interpreted for an instance whose parameter holds a generator set on the instance (class default: a number) and for a class "
                      "whose default is a generator: the object and every generator currently producing ITS values (asked of the object, not of its class) receive the clock", floor=1)
    ctx.rule("R19.v", "the generator that state push / pop and inspection operate on is the one attribute access reads: Parameters.get_value_generator / inspect_value take the value from the "
                      "instance's value store or the CLASS-level Parameter, never from a per-instance Parameter copy (which keeps the default it was created with) -- shared with R13.g", floor=2)
    ctx.rule("R19.y", "Dynamic set model: generator state is (re)initialised only for a value that was actually stored -- never before the assignment is accepted (a refused assignment of a "
                      "generator already in use elsewhere would wipe its cached value and saved states), never on a reference", floor=1)
    ctx.rule("R19.s", "per-object state is per object: no class body in param / numbergen binds a mutable container to an attribute that a method mutates in place through self unless the "
                      "class's __init__ rebinds it (a class-level Time._pushed_state would make all clocks share one context stack)", floor=1)
    ctx.rule("R19.a", "every random generator's __call__ reseeds (super().__call__()) on all paths before it draws from self.random_generator; "
                      "RandomDistribution.__call__ reseeds under time_dependent; the seed is a function of (name-hash, time, global seed) only; "
                      "Hash.__call__ works on a copy of the digest", floor=9)
    ctx.rule("R19.b", "inspecting (Dynamic._inspect, Parameters.inspect_value) never produces a value", floor=2)
    ctx.rule("R19.c", "Dynamic._produce_value: with a time function and time_dependent, a new value is produced iff force or time != cached time, and then BOTH "
                      "_Dynamic_last and _Dynamic_time are written; otherwise the cached value is returned and nothing is written (exhaustive abstract cases)", floor=1)
    ctx.rule("R19.e", "reading a generator never moves the clock: in numbergen every call that SETS the time (time_fn(<value>)) is made inside `with self.time_fn` (whose exit restores the "
                      "saved time) or is followed on every exit by a call restoring a value that was read from the clock and not modified since", floor=1)
    ctx.rule("R19.f", "every value generator gets its own bookkeeping: Dynamic._initialize_generator, interpreted abstractly on two generators in a row, gives each its own (distinct, empty) "
                      "save stacks _saved_Dynamic_last / _saved_Dynamic_time, and the initial cache (_Dynamic_last None, _Dynamic_time -1); shared stacks make _state_pop hand generator b's value to a", floor=1)
    ctx.rule("R19.g", "a copied generator hashes like the original: Hash.__init__ and Hash.__setstate__ (used by deepcopy and pickle), interpreted abstractly, feed the md5 state the same "
                      "sequence of inputs -- everything that __init__ feeds (name, seed suffix) is fed again when the object is restored", floor=1)
    ctx.rule("R19.d", "Time.__enter__ pushes exactly the tuple __exit__ unpacks; _state_push appends exactly the fields _state_pop pops, from the same per-generator stacks", floor=2)
    ctx.not_decided += ["numeric equality of the generated values (depends on the stdlib PRNG)"]

    # ---------------------------------------------------------------- R19.a
    gens = ctx.hier.descendants(RD, strict=True)
    ctx.require(len(gens) >= 6, "fewer than 6 random generators below RandomDistribution (%d)" % len(gens))
    for q in gens:
        f = ctx.repo.classes[q].method("__call__")
        if f is None:
            continue
        cfg = ctx.facts.cfg(f)
        draws = [n for n in cfg.live_nodes() if n.kind in ("stmt", "test") and any(
            isinstance(a, ast.Attribute) and a.attr == "random_generator" and norm(a.value) == "self" for a in ast.walk(n.ast))]
        sup = [n for n in cfg.live_nodes() for c in calls_in(n) if isinstance(c.func, ast.Attribute) and c.func.attr == "__call__"
               and isinstance(c.func.value, ast.Call) and norm(c.func.value.func) == "super"]
        if not draws:
            ctx.ok("R19.a", f, f.node, "%s does not draw from the random state" % q)
            continue
        bad = [d for d in draws if not any(cfg.dominates(s, d) and s is not d for s in sup)]
        if bad:
            ctx.fail("R19.a", f, bad[0], "%s.__call__ draws from self.random_generator on a path that has not called super().__call__() (the time-keyed reseed): "
                                         "the value at time t depends on how many values were drawn before" % q.rsplit(".", 1)[-1],
                     key="%s::draw-without-reseed" % f.qualname)
        else:
            ctx.ok("R19.a", f, draws[0], "draw dominated by super().__call__()")
    base = ctx.repo.method(RD, "__call__")
    bc = ctx.facts.cfg(base)
    hs = [n for n in bc.live_nodes() for c in calls_in(n) if norm(c.func) == "self._hash_and_seed"]
    from engine.cfg import cond_holds
    if hs and all(cond_holds(bc.conditions(n), "self.time_dependent", True) for n in hs) and \
            not any(n is bc.exit for n in bc.reachable_from([bc.entry], stop=lambda n: n in hs or (n.kind == "br" and norm(n.ast) == "self.time_dependent" and n.polarity is False))):
        ctx.ok("R19.a", base, hs[0], "reseeds whenever time_dependent")
    else:
        ctx.fail("R19.a", base, base.node, "RandomDistribution.__call__ does not call self._hash_and_seed() on every time_dependent path", key=base.qualname + "::no-reseed")
    has = ctx.repo.method(TARS, "_hash_and_seed")
    seeds = [c for c in ast.walk(has.node) if isinstance(c, ast.Call) and norm(c.func) == "self.random_generator.seed"]
    srcs = set()
    for st in walk_stmts(has.node):
        if isinstance(st, (ast.Assign, ast.Expr)):
            for a in ast.walk(st):
                if isinstance(a, ast.Attribute) and isinstance(a.ctx, ast.Load) and norm(a) not in ("self.random_generator", "self.random_generator.seed"):
                    if not any(norm(a) == norm(p.value) for p in ast.walk(st) if isinstance(p, ast.Attribute) and p is not a):
                        srcs.add(norm(a))
    uses_time = any(isinstance(c, ast.Call) and norm(c.func) == "self.time_fn" for c in ast.walk(has.node))
    extra = srcs - SEED_INPUTS
    hcfg = ctx.facts.cfg(has)
    seed_nodes = {n.id for n in hcfg.live_nodes() if any(norm(c.func) == "self.random_generator.seed" for c in calls_in(n))}
    skips = any(r is hcfg.exit for r in hcfg.reachable_from([hcfg.entry], stop=lambda n: n.id in seed_nodes, labels={"n", "t", "f"}))
    memo = [norm(a) for a in ast.walk(has.node) if isinstance(a, ast.Call) and norm(a.func) == "getattr" and a.args and norm(a.args[0]) == "self"]
    if skips or memo:
        ctx.fail("R19.a", has, has.node, "_hash_and_seed does not reseed on every call (%s): a second draw at an unchanged time continues the stream instead of restarting it, "
                                         "so the value at time t depends on how many values were drawn before" % (
                                             "a path returns without seeding" if skips else "reads remembered state %s" % memo[0]),
                 key=has.qualname + "::conditional-reseed",
                 input="call the same generator twice at the same time (push/jump/read/pop/read, or a generator shared by two instances)")
    elif seeds and uses_time and not extra:
        ctx.ok("R19.a", has, has.node, "seed = hash(%s) only" % ", ".join(sorted(srcs)))
    else:
        ctx.fail("R19.a", has, has.node, "_hash_and_seed %s" % ("reads history-carrying state: %s" % sorted(extra) if extra else "does not seed the generator from the hash of the current time"),
                 key=has.qualname + "::seed-inputs")
    hc = ctx.repo.method("numbergen.Hash", "__call__")
    upd = [c for c in ast.walk(hc.node) if isinstance(c, ast.Call) and isinstance(c.func, ast.Attribute) and c.func.attr == "update"]
    direct = [c for c in upd if norm(c.func.value) == "self._digest"]
    copies = [st for st in walk_stmts(hc.node) if isinstance(st, ast.Assign) and isinstance(st.value, ast.Call) and norm(st.value.func) == "self._digest.copy"]
    if upd and not direct and copies and all(isinstance(c.func.value, ast.Name) and c.func.value.id == copies[0].targets[0].id for c in upd):
        ctx.ok("R19.a", hc, copies[0], "hash computed on a copy of the name digest")
    else:
        ctx.fail("R19.a", hc, hc.node, "Hash.__call__ updates the shared digest in place: the hash at time t depends on the times visited before", key=hc.qualname + "::digest-not-copied")

    # ---------------------------------------------------------------- R19.b
    for q, m in ((DYN, "_inspect"), ("param.parameterized.Parameters", "inspect_value")):
        f = ctx.repo.method(q, m)
        seen, work, prod = set(), [f], None
        depth = {f.qualname: 0}
        while work:
            g = work.pop()
            if g.qualname in seen:
                continue
            seen.add(g.qualname)
            for c in (x for x in ast.walk(g.node) if isinstance(x, ast.Call)):
                nm = c.func.attr if isinstance(c.func, ast.Attribute) else (c.func.id if isinstance(c.func, ast.Name) else "")
                if nm in ("_produce_value", "_force", "__next__", "next"):
                    prod = (g, c)
                if g is f and isinstance(c.func, ast.Name) and c.func.id in ("gen", "g"):
                    prod = (g, c)
                if depth[g.qualname] < 3:
                    for t in ctx.facts.resolve_call(c, g) or []:
                        if t.qualname not in depth and (t.name.startswith("_inspect") or t.name in ("inspect_value", "__get__")):
                            depth[t.qualname] = depth[g.qualname] + 1
                            work.append(t)
        if prod:
            ctx.fail("R19.b", prod[0], prod[1], "inspection reaches `%s`, which produces a new value: inspecting advances the stream" % norm(prod[1])[:60],
                     key="%s::inspect-produces" % f.qualname)
        else:
            ctx.ok("R19.b", f, f.node, "no path to _produce_value / a generator call (%d function(s) examined)" % len(seen))

    # ---------------------------------------------------------------- R19.c
    pv = ctx.repo.method(DYN, "_produce_value")
    n = 0
    bad = []
    from engine.absint import Val
    from engine.absint import _Raise
    for ((has_tf, tdep, force, own_tf), rel), fails in itertools.product(
            itertools.product(itertools.product([True, False], repeat=4), ("same", "later", "earlier")), (False, True)):
        if not has_tf and own_tf:
            continue
        same_time = rel == "same"
        cached_time = LO
        now = LO if same_time else (HI if rel == "later" else Val(0))
        cached_val = Obj("cached_value")
        gen = Obj("gen", _Dynamic_last=cached_val, _Dynamic_time=cached_time)
        tf = Obj("time_fn")
        if own_tf:
            gen.attrs["_Dynamic_time_fn"] = tf if has_tf else None
        self_obj = Obj("dynamic_param", time_fn=(tf if has_tf else None), time_dependent=tdep)
        holder = {}

        def hook(name, args, kwargs):
            if name == "hasattr":
                return own_tf if (len(args) == 2 and args[1] == "_Dynamic_time_fn") else NotImplemented
            if name == "time_fn":
                return now
            if name == "_produce_value":
                holder["it"].trace.append("produce")
                if fails:
                    raise _Raise("GeneratorError")
                return Obj("fresh_value")
            return NotImplemented
        it = Interp(ctx.hier, dyn=DYN, call_hook=hook)
        holder["it"] = it
        try:
            outs = it.run_all(pv, {"self": self_obj, "gen": gen, "force": force})
        except Unsupported as e:
            raise AnalysisError("absint cannot interpret Dynamic._produce_value: %s" % e)
        n += 1
        effective_tf = (gen.attrs.get("_Dynamic_time_fn") if own_tf else self_obj.attrs["time_fn"])
        timed = effective_tf is not None and tdep
        want_produce = (not timed) or force or not same_time
        for o in outs:
            if o.imprecise:
                raise AnalysisError("absint imprecise on _produce_value: %s" % o.notes)
            produced = "produce" in o.trace
            if fails and want_produce:
                # a generator that raises must leave the cache exactly as it was, so that a retry at this time produces again
                if not (o.kind == "raise" and gen.attrs["_Dynamic_last"] is cached_val and gen.attrs["_Dynamic_time"] is cached_time):
                    bad.append(dict(time_fn=has_tf, time_dependent=tdep, force=force, same_time=same_time, generator_raises=True,
                                    cache_value_kept=gen.attrs["_Dynamic_last"] is cached_val, cache_time_kept=gen.attrs["_Dynamic_time"] is cached_time))
                continue
            last_written = gen.attrs["_Dynamic_last"] is not cached_val
            time_written = gen.attrs["_Dynamic_time"] is not cached_time or (timed and produced and gen.attrs["_Dynamic_time"] is now and now is not cached_time)
            ret_fresh = o.kind == "return" and isinstance(o.value, Obj) and o.value.name == "fresh_value"
            ret_cached = o.kind == "return" and o.value is cached_val
            ok = produced == want_produce
            if want_produce:
                ok = ok and last_written and ret_fresh
                if timed:
                    ok = ok and gen.attrs["_Dynamic_time"] is now
            else:
                ok = ok and not last_written and gen.attrs["_Dynamic_time"] is cached_time and ret_cached
            if not ok:
                bad.append(dict(time_fn=has_tf, time_dependent=tdep, force=force, same_time=same_time, produced=produced,
                                last_written=last_written, time_now=gen.attrs["_Dynamic_time"] is now))
    ctx.abstract_cases += n
    ctx.exhaustive = True
    if bad:
        ctx.fail("R19.c", pv, pv.node, "time-keyed cache wrong for %s" % bad[0], key=pv.qualname + "::cache-table")
    else:
        ctx.ok("R19.c", pv, pv.node, "%d/%d abstract cases agree (produce iff untimed or force or time changed; paired writes of value and time)" % (n, n))

    # ---------------------------------------------------------------- R19.d
    T = "param.parameters.Time"
    en, ex = ctx.repo.method(T, "__enter__"), ctx.repo.method(T, "__exit__")
    pushed = [c.args[0] for c in ast.walk(en.node) if isinstance(c, ast.Call) and isinstance(c.func, ast.Attribute) and c.func.attr == "append"
              and norm(c.func.value) == "self._pushed_state" and c.args and isinstance(c.args[0], ast.Tuple)]
    popped = [st.targets[0] for st in walk_stmts(ex.node) if isinstance(st, ast.Assign) and isinstance(st.targets[0], ast.Tuple)
              and isinstance(st.value, ast.Call) and norm(st.value.func) == "self._pushed_state.pop" and not st.value.args]
    if pushed and popped and [norm(e) for e in pushed[0].elts] == [norm(e) for e in popped[0].elts] and "self._time" in [norm(e) for e in pushed[0].elts]:
        ctx.ok("R19.d", en, pushed[0], "enter pushes and exit restores (%s)" % ", ".join(norm(e) for e in pushed[0].elts))
    else:
        ctx.fail("R19.d", ex, ex.node, "Time.__exit__ does not restore exactly the fields __enter__ pushed, in the same order (pushed %s, restored %s)" % (
            [norm(e) for e in pushed[0].elts] if pushed else None, [norm(e) for e in popped[0].elts] if popped else None), key=T + "::enter-exit")
    ps, pp = ctx.repo.method("param.parameterized.Parameters", "_state_push"), ctx.repo.method("param.parameterized.Parameters", "_state_pop")
    pushes = sorted((norm(c.func.value), norm(c.args[0])) for c in ast.walk(ps.node) if isinstance(c, ast.Call) and isinstance(c.func, ast.Attribute)
                    and c.func.attr == "append" and c.args and "_saved_" in norm(c.func.value))
    pops = sorted((norm(st.value.func.value), norm(st.targets[0])) for st in walk_stmts(pp.node) if isinstance(st, ast.Assign) and isinstance(st.value, ast.Call)
                  and isinstance(st.value.func, ast.Attribute) and st.value.func.attr == "pop" and not st.value.args and "_saved_" in norm(st.value.func.value))
    lookup = all(any(isinstance(c, ast.Call) and isinstance(c.func, ast.Attribute) and c.func.attr == "get_value_generator" for c in ast.walk(g.node))
                 and any(isinstance(lp, ast.For) and "param.objects(" in norm(lp.iter) for lp in ast.walk(g.node)) for g in (ps, pp))
    if not lookup:
        ctx.fail("R19.d", ps, ps.node, "_state_push/_state_pop no longer visit every parameter through param.objects(...) / get_value_generator(name): generators held by the class "
                                       "(not set on the instance) are neither saved nor restored", key="Parameters::state-push-pop-coverage",
                 input="generator assigned on the class after the instance was created; push, jump, read, pop -> inspect_value shows the future value")
    elif pushes and pushes == pops and {p[1].split(".")[-1] for p in pushes} >= {"_Dynamic_last", "_Dynamic_time"}:
        ctx.ok("R19.d", ps, ps.node, "push/pop pairs: %s" % ", ".join("%s<->%s" % p for p in pushes))
    else:
        ctx.fail("R19.d", pp, pp.node, "_state_pop does not pop exactly what _state_push saved (push %s, pop %s)" % (pushes, pops), key="Parameters::state-push-pop")

    # ---------------------------------------------------------------- R19.e
    n_set = 0
    for g in ctx.repo.all_funcs("numbergen"):
        al = {}
        for st in ast.walk(g.node):
            if isinstance(st, ast.Assign) and len(st.targets) == 1 and isinstance(st.targets[0], ast.Name) and norm(st.value) == "self.time_fn":
                al[st.targets[0].id] = "alias"
            if isinstance(st, ast.With):
                for i in st.items:
                    if norm(i.context_expr) == "self.time_fn" and isinstance(i.optional_vars, ast.Name):
                        al[i.optional_vars.id] = "with"

        def is_clock(fn):
            return norm(fn) == "self.time_fn" or (isinstance(fn, ast.Name) and fn.id in al)
        sets = [c for c in ast.walk(g.node) if isinstance(c, ast.Call) and is_clock(c.func) and (c.args or c.keywords)]
        if not sets:
            continue
        withs = [w for w in ast.walk(g.node) if isinstance(w, ast.With) and any(norm(i.context_expr) == "self.time_fn" for i in w.items)]
        for c in sets:
            n_set += 1
            if any(c in list(ast.walk(w)) for w in withs):
                ctx.ok("R19.e", g, c, "`%s` is inside `with self.time_fn`: the context's exit restores the saved time" % norm(c)[:60])
                continue
            gcfg = ctx.facts.cfg(g)
            cn = [n for n in gcfg.live_nodes() if n.ast is not None and n.kind == "stmt" and any(x is c for x in ast.walk(n.ast))]
            if not cn:
                raise AnalysisError("cannot locate `%s` in the flow graph of %s" % (norm(c), g.qualname))

            def pristine(name):
                defs = [st for st in ast.walk(g.node) if isinstance(st, (ast.Assign, ast.AugAssign, ast.AnnAssign, ast.For, ast.With))
                        and any(isinstance(t, ast.Name) and t.id == name and isinstance(t.ctx, ast.Store) for t in ast.walk(st) if not isinstance(t, ast.Call))]
                return len(defs) == 1 and isinstance(defs[0], ast.Assign) and isinstance(defs[0].value, ast.Call) and is_clock(defs[0].value.func) and not defs[0].value.args

            if len(c.args) == 1 and isinstance(c.args[0], ast.Name) and pristine(c.args[0].id):
                ctx.ok("R19.e", g, c, "`%s` puts back a time value read from the clock and not modified since" % norm(c)[:60])
                continue

            def restores(n):
                return n.ast is not None and n.kind == "stmt" and any(isinstance(k, ast.Call) and is_clock(k.func) and len(k.args) == 1 and isinstance(k.args[0], ast.Name)
                                                                      and pristine(k.args[0].id) for k in ast.walk(n.ast)) and n is not cn[0]
            # (if the setting call itself raises, the clock has not been moved)
            seen, stack, leak = set(), [t for l, t in cn[0].succ if l != "e"], None
            while stack and leak is None:
                n = stack.pop()
                if n.id in seen:
                    continue
                seen.add(n.id)
                if restores(n):
                    continue
                if n is gcfg.exit or n is gcfg.excexit:
                    leak = n
                    break
                stack.extend(t for l, t in n.succ)
            if restores(cn[0]) or leak is None and any(restores(n) for n in gcfg.live_nodes()):
                ctx.ok("R19.e", g, c, "`%s` is followed on every exit by a restore of the time that was read" % norm(c)[:60])
            else:
                ctx.fail("R19.e", g, c, "`%s` moves the clock outside `with self.time_fn`, and on the %s exit no call restores a time value that was read from the clock and left unmodified: "
                                        "reading the generator leaves the clock somewhere else, so later reads see another time" % (norm(c)[:60], "exceptional" if leak is gcfg.excexit else "normal"),
                         key="%s::clock-moved-by-read" % g.qualname, input="TimeSampledFn(offset=0.25, ...) on a Fraction clock: calling it changes time_fn()")
    ctx.require(n_set >= 1, "no clock-setting call found in numbergen (TimeSampledFn.__call__ changed shape): anchor of R19.e vanished")

    # ---------------------------------------------------------------- R19.f
    ig = ctx.repo.method("param.parameters.Dynamic", "_initialize_generator")
    it_f = Interp(ctx.hier, dyn="param.parameters.Dynamic", inline=lambda m: True,
                  call_hook=lambda fn, args, kwargs: (isinstance(args[0], Obj) and args[1] in args[0].attrs) if fn == "hasattr" and len(args) == 2 else NotImplemented)
    dyn_param = Obj("dynamic_parameter", __cls__="param.parameters.Dynamic")
    g1, g2 = Obj("generator_1"), Obj("generator_2")
    try:
        for g_ in (g1, g2):
            it_f.choices, it_f.cursor, it_f.imprecise, it_f.notes = [], 0, False, []
            it_f.call_func(ig, {ig.params[0]: dyn_param, ig.params[1]: g_, "obj": None})
            if it_f.imprecise:
                raise AnalysisError("absint imprecise on Dynamic._initialize_generator (%s) -- R19.f cannot decide" % it_f.notes[:2])
    except Unsupported as e:
        raise AnalysisError("absint cannot interpret Dynamic._initialize_generator: %s -- R19.f cannot decide" % e)
    ctx.abstract_cases += 2
    badf = None
    for attr in ("_saved_Dynamic_last", "_saved_Dynamic_time"):
        a, b = g1.attrs.get(attr, "missing"), g2.attrs.get(attr, "missing")
        if not isinstance(a, list) or not isinstance(b, list) or a or b:
            badf = "%s is %r / %r after initialisation (specification: an empty list for each generator)" % (attr, a, b)
        elif a is b:
            badf = "two generators are given the SAME list object as %s: _state_push appends and _state_pop pops in parameter order, so with a shared stack the generators get each other's saved values back" % attr
    if isinstance(g1.attrs.get("_saved_Dynamic_last"), list) and g1.attrs.get("_saved_Dynamic_last") is g1.attrs.get("_saved_Dynamic_time"):
        badf = badf or "one generator's two save stacks are the same list object: saved values and saved times are interleaved and _state_pop restores a time as the value"
    if g1.attrs.get("_Dynamic_last", "missing") is not None or g1.attrs.get("_Dynamic_time", "missing") != -1:
        badf = badf or "the initial cache is (_Dynamic_last=%r, _Dynamic_time=%r), specification (None, -1)" % (g1.attrs.get("_Dynamic_last", "missing"), g1.attrs.get("_Dynamic_time", "missing"))
    if badf:
        ctx.fail("R19.f", ig, ig.node, "Dynamic._initialize_generator: " + badf, key=ig.qualname + "::shared-bookkeeping",
                 input="P(a=gen1, b=gen2); p.param._state_push(); p.a; p.b; p.param._state_pop() -> p.a reads b's value")
    else:
        ctx.ok("R19.f", ig, ig.node, "two generators initialised in a row: distinct empty save stacks, cache (None, -1)")

    n_ps = 0
    for g in ctx.repo.all_funcs("param.parameters"):
        if g.cls is None or g.cls.name != "Time":
            continue
        for st in ast.walk(g.node):
            w = None
            if isinstance(st, (ast.Assign, ast.AugAssign)):
                for t in (st.targets if isinstance(st, ast.Assign) else [st.target]):
                    b = t.value if isinstance(t, ast.Subscript) else t
                    if isinstance(b, ast.Attribute) and b.attr == "_pushed_state":
                        w = st
            if isinstance(st, ast.Call) and isinstance(st.func, ast.Attribute) and isinstance(st.func.value, ast.Attribute) and st.func.value.attr == "_pushed_state" \
                    and st.func.attr in ("append", "pop", "clear", "insert", "extend", "remove", "sort", "reverse", "__setitem__"):
                w = st
            if w is None:
                continue
            n_ps += 1
            if g.name in ("__init__", "__enter__", "__exit__"):
                ctx.ok("R19.h", g, w, "Time.%s writes _pushed_state (context protocol)" % g.name)
            else:
                ctx.fail("R19.h", g, w, "Time.%s rewrites _pushed_state (`%s`): the times that enclosing `with time:` contexts saved are changed behind their back, so leaving a context restores "
                                        "another time than the one it was entered at" % (g.name, norm(w)[:60]), key="%s::pushed-state-rewritten" % g.qualname,
                         input="t(7/2 as Fraction); with t: t(5, time_type=int)  -> after the block t() == 3")
    ctx.require(n_ps >= 2, "fewer than 2 writers of Time._pushed_state found (%d)" % n_ps)

    hash_state_agreement(ctx, "R19.g")
    from checks.shared import dynamic_cache_writers, time_fn_model
    dynamic_cache_writers(ctx, "R19.w")
    time_fn_model(ctx, "R19.t")
    from checks.shared import no_shared_mutable_class_state
    no_shared_mutable_class_state(ctx, "R19.s")
    ctx.rule("R19.m", "the hash behind time-dependent draws is a function of its inputs alone: numbergen.Hash.__call__ keeps no per-instance state keyed by anything but the inputs themselves "
                      "(a key that passes through hash(), id(), int(), ... lets two times share an entry: the value at t depends on the visiting order)", floor=1)
    hash_memo_is_exact(ctx, "R19.m")
    ctx.rule("R19.r", "equal times hash equally: every (numerator, denominator) pair numbergen.Hash._rational builds is read off a value kept in lowest terms (int, Fraction / mpq attributes), "
                      "never computed by arithmetic of its own", floor=1)
    rational_pairs_are_canonical(ctx, "R19.r")
    ctx.rule("R19.x", "who may move the clock: `Time._time` is written only by the constructor, __call__, __next__, __iadd__, __isub__ and the restore in __exit__ (frozen table, one reason each) -- "
                      "nothing that runs as a side effect of restoring the clock's parameters", floor=5)
    who_moves_the_clock(ctx, "R19.x")
    ctx.rule("R19.i", "the clock is rebound, never mutated in place: no method of Time applies an augmented assignment to self._time (the saved and cached time objects would move with it)", floor=1)
    clock_is_rebound_not_mutated(ctx, "R19.i")
    ctx.rule("R19.n", "reads never force a draw: only the explicit forcing API (_force, force_new_dynamic_value) passes a `force` that can be true to _produce_value", floor=1)
    reads_never_force_a_draw(ctx, "R19.n")
    from checks.c13 import value_reporters_agree
    value_reporters_agree(ctx, "R19.v")
    from checks.shared import dynamic_set_model
    dynamic_set_model(ctx, "R19.y")


def hash_state_agreement(ctx, rule):
    HQ = "numbergen.Hash"
    hinit, hset, hget = ctx.repo.method(HQ, "__init__"), ctx.repo.method(HQ, "__setstate__"), ctx.repo.method(HQ, "__getstate__")
    ctx.require(hinit and hset and hget, "numbergen.Hash no longer defines __init__/__getstate__/__setstate__")

    def run_hash(fn_, env_):
        feeds = []

        def hk(fn, args, kwargs):
            if fn == "hashlib.md5":
                return Obj("md5_state")
            if fn.endswith(".encode") and not args:
                return ("encoded", getattr(it_h, "current_receiver", None))
            if fn.endswith("._digest.update") or fn.endswith("digest.update"):
                feeds.append(args[0] if args else None)
                return None
            if fn.endswith(".__dict__.update") or fn.endswith(".__dict__.copy"):
                return NotImplemented
            return NotImplemented
        hk.needs_receiver = True
        it_h = Interp(ctx.hier, dyn=HQ, inline=lambda m: False, call_hook=hk, globals={"hashlib": Obj("hashlib"), "struct": Obj("struct")})
        try:
            it_h.choices, it_h.cursor, it_h.imprecise, it_h.notes = [], 0, False, []
            it_h.call_func(fn_, env_)
        except Unsupported as e:
            raise AnalysisError("absint cannot interpret numbergen.Hash.%s: %s -- R19.g cannot decide" % (fn_.name, e))
        return feeds
    nm, salt = Obj("name_string"), Obj("extra_string_argument")
    hobj = Obj("hash_object")
    env0 = {hinit.params[0]: hobj, hinit.params[1]: nm, hinit.params[2]: 2}
    for extra in hinit.params[3:]:
        env0[extra] = salt
    f_init = run_hash(hinit, env0)
    state = {k: v for k, v in hobj.attrs.items() if k not in ("_digest", "_hash_struct")}
    hobj2 = Obj("restored_hash_object")
    f_set = run_hash(hset, {hset.params[0]: hobj2, hset.params[1]: dict(state)})
    ctx.abstract_cases += 2
    key_of = lambda x: ("encoded", id(x[1])) if isinstance(x, tuple) else ("other", id(x))
    if [key_of(x) for x in f_init] != [key_of(x) for x in f_set] or not f_init:
        ctx.fail(rule, hset, hset.node, "Hash.__init__ feeds the md5 state %s, Hash.__setstate__ feeds it %s: a deep-copied or unpickled generator (every instance gets a deep copy of the class-level "
                                           "generator) hashes differently from the generator it was copied from -- e.g. it loses its seed" % (
                                               [getattr(x[1], "name", x) if isinstance(x, tuple) else x for x in f_init], [getattr(x[1], "name", x) if isinstance(x, tuple) else x for x in f_set]),
                 key=hset.qualname + "::digest-inputs-differ", input="gen = UniformRandom(seed=42); copy.deepcopy(gen)() != gen() at the same time")
    else:
        ctx.ok(rule, hset, hset.node, "__init__ and __setstate__ feed the md5 state the same %d input(s)" % len(f_init))


def hash_memo_is_exact(ctx, rule):
    """numbergen.Hash.__call__ gives the value a generator draws at time t: it must be a function of its inputs alone,
    whatever was asked before.  The body may keep a per-instance memo only if the memo is keyed by the inputs
    THEMSELVES; a key that passes through a lossy function -- hash() (hash(-1) == hash(-2)), id(), int(), float(),
    round(), str(), repr(), len() -- lets two different times share an entry: the value at t then depends on which of
    them was visited first.  Every subscript / get / setdefault on state reached through self is examined; local names
    are followed to their definitions."""
    f = ctx.repo.func("numbergen.Hash.__call__")
    selfname = f.params[0]
    inputs = {a.arg for a in f.node.args.args[1:]} | ({f.node.args.vararg.arg} if f.node.args.vararg else set())
    LOSSY = {"hash", "id", "int", "float", "round", "str", "repr", "len", "abs", "bool"}
    defs = {}
    for st in ast.walk(f.node):
        if isinstance(st, ast.Assign):
            for t in st.targets:
                if isinstance(t, ast.Name):
                    defs.setdefault(t.id, []).append(st.value)

    def on_self(e):
        return isinstance(e, ast.Attribute) and isinstance(e.value, ast.Name) and e.value.id == selfname

    def lossy(e, depth=0):
        for c in ast.walk(e):
            if isinstance(c, ast.Call) and norm(c.func).rsplit(".", 1)[-1] in LOSSY:
                return norm(c)
            if isinstance(c, ast.Name) and isinstance(c.ctx, ast.Load) and c.id in defs and c.id not in inputs and depth < 3:
                for d in defs[c.id]:
                    r = lossy(d, depth + 1)
                    if r:
                        return r
        return None
    keyed = []
    for n in ast.walk(f.node):
        if isinstance(n, ast.Subscript) and on_self(n.value):
            keyed.append((n, n.slice))
        if isinstance(n, ast.Call) and isinstance(n.func, ast.Attribute) and n.func.attr in ("get", "setdefault", "pop", "__getitem__", "__setitem__", "__contains__") and on_self(n.func.value) and n.args:
            keyed.append((n, n.args[0]))
        if isinstance(n, ast.Compare) and any(isinstance(op, (ast.In, ast.NotIn)) for op in n.ops) and any(on_self(c) for c in n.comparators):
            keyed.append((n, n.left))
    bad = [(n, k, lossy(k)) for n, k in keyed if lossy(k)]
    if bad:
        n, k, why = bad[0]
        ctx.fail(rule, f, n, "Hash.__call__ keeps per-instance state keyed by `%s`, which passes through `%s`: different inputs can share an entry (CPython: hash(-1) == hash(-2), also for Fraction), "
                             "so the value a generator draws at time t depends on which of the colliding times was visited first and differs from a fresh generator with the same name and seed" % (
                                 norm(k)[:50], why[:40]), key=f.qualname + "::lossy-memo-key", input="g = UniformRandom(name='n', seed=1, time_dependent=True); visit t=-1 then t=-2 vs t=-2 then t=-1")
    else:
        ctx.ok(rule, f, f.node, "Hash.__call__ %s" % ("keeps no per-instance state keyed by its inputs" if not keyed else "keys its per-instance state by the inputs themselves (%d site(s))" % len(keyed)))


def rational_pairs_are_canonical(ctx, rule):
    """numbergen.Hash._rational turns a time into the (numerator, denominator) pair that is hashed.  Equal times must give
    equal pairs whatever their representation (Decimal('0.5') and Decimal('0.50'), reached by stepping or set directly):
    every branch takes the pair from a value that keeps itself in lowest terms -- the integer itself over 1, the
    `.numerator` / `.denominator` of a Fraction or mpq (or the old gmpy accessors `numer()` / `denom()`) -- and never
    computes it with arithmetic of its own (digits and exponent, scaling by a power of ten), which is not reduced."""
    f = ctx.repo.func("numbergen.Hash._rational")
    pairs = []
    for st in ast.walk(f.node):
        if isinstance(st, ast.Assign):
            for t in st.targets:
                names = [norm(x) for x in t.elts] if isinstance(t, ast.Tuple) else [norm(t)]
                if "numer" in names or "denom" in names:
                    vals = list(st.value.elts) if isinstance(st.value, ast.Tuple) and isinstance(t, ast.Tuple) else [st.value]
                    for nme, v in zip(names, vals if len(vals) == len(names) else [st.value] * len(names)):
                        if nme in ("numer", "denom"):
                            pairs.append((st, nme, v))
    ctx.require(len(pairs) >= 6, "fewer than 6 numerator / denominator bindings in Hash._rational (%d)" % len(pairs))

    def canonical(v):
        if isinstance(v, ast.Name) or (isinstance(v, ast.Constant) and v.value == 1):
            return True
        if isinstance(v, ast.Attribute) and v.attr in ("numerator", "denominator"):
            return True
        if isinstance(v, ast.Call) and norm(v.func) == "int" and len(v.args) == 1 and isinstance(v.args[0], ast.Call) and isinstance(v.args[0].func, ast.Attribute) \
                and v.args[0].func.attr in ("numer", "denom") and not v.args[0].args:
            return True
        return False
    bad = [(st, nme, v) for st, nme, v in pairs if not canonical(v)]
    if bad:
        st, nme, v = bad[0]
        ctx.fail(rule, f, st, "Hash._rational computes `%s = %s` itself instead of reading it off a value kept in lowest terms: the pair is not reduced, so equal times with different "
                              "representations (Decimal('0.5') set directly, Decimal('0.50') reached by adding 0.25 twice) hash to different seeds -- the value drawn at time t depends on how t "
                              "was reached" % (nme, norm(v)[:50]), key=f.qualname + "::pair-not-canonical", input="Time(time_type=Decimal): t = 0.25 + 0.25 vs t = 0.5")
    else:
        ctx.ok(rule, f, f.node, "every (numerator, denominator) pair of Hash._rational is read off an integer, a Fraction or an mpq (%d bindings)" % len(pairs))


TIME_WRITERS = {
    "__init__": "starts the clock at zero",
    "__next__": "the iterator steps the clock",
    "__call__": "sets the time explicitly (and changes the time type)",
    "__iadd__": "advances the clock",
    "__isub__": "moves the clock back",
    "__exit__": "restores the time saved by __enter__",
}


def who_moves_the_clock(ctx, rule):
    """Who may write `Time._time`: the constructor, the explicit setters and steppers, and the restore of a time context.
    Nothing that runs as a side effect of something else (a watcher of a parameter of the clock, a property setter):
    `__exit__` restores the time and then the parameters timestep / until -- a watcher of `until` that moves the time
    would overwrite the restored time with something derived from the parameter just restored."""
    cls = ctx.repo.cls("param.parameters.Time")
    found = {}
    for name, fs in cls.methods.items():
        for g in fs:
            selfn = g.params[0] if g.params else "self"
            for st in ast.walk(g.node):
                targets = st.targets if isinstance(st, ast.Assign) else [st.target] if isinstance(st, (ast.AugAssign, ast.AnnAssign)) else []
                for t in targets:
                    for x in ast.walk(t):
                        if isinstance(x, ast.Attribute) and isinstance(x.ctx, ast.Store) and x.attr == "_time" and isinstance(x.value, ast.Name) and x.value.id == selfn:
                            found.setdefault(name, (g, st))
    ctx.require(len(found) >= 5, "fewer than 5 methods of Time write self._time (%d)" % len(found))
    for name, (g, st) in sorted(found.items()):
        if name in TIME_WRITERS:
            ctx.ok(rule, g, st, "sanctioned writer of the clock: %s" % TIME_WRITERS[name])
        else:
            ctx.fail(rule, g, st, "Time.%s writes self._time (`%s`): only the constructor, the explicit setters / steppers and __exit__ move the clock -- a writer that runs as a side effect (a watcher "
                                  "of `until` / `timestep`) fires while __exit__ restores those parameters AFTER the time and overwrites the restored time: leaving a time context no longer "
                                  "restores the time exactly" % (name, norm(st)[:60]), key="param.parameters.Time.%s::moves-the-clock" % name,
                     input="t(20); with t: t.until = 5 ...  -> after the block t() != 20")


def clock_is_rebound_not_mutated(ctx, rule):
    """`Time.__enter__` saves the time OBJECT, and Dynamic caches the time object a value was produced at.  Every method of
    Time that moves the clock REBINDS `self._time` (`self._time = self._time + dt`); an augmented assignment
    (`self._time += dt`) mutates the object in place when the time type is mutable, and with it every saved / cached
    reference: leaving a context no longer restores the time, and a cached value never looks out of date again."""
    cls = ctx.repo.cls("param.parameters.Time")
    n, bad = 0, []
    for name, fs in cls.methods.items():
        for g in fs:
            selfn = g.params[0] if g.params else "self"
            for st in ast.walk(g.node):
                if isinstance(st, ast.AugAssign) and isinstance(st.target, ast.Attribute) and st.target.attr == "_time" and norm(st.target.value) == selfn:
                    bad.append((g, st))
                if isinstance(st, ast.Assign) and any(isinstance(t, ast.Attribute) and t.attr == "_time" and norm(t.value) == selfn for t in st.targets):
                    n += 1
    ctx.require(n + len(bad) >= 4, "fewer than 4 assignments of self._time in Time (%d)" % (n + len(bad)))
    if bad:
        g, st = bad[0]
        ctx.fail(rule, g, st, "Time.%s moves the clock with `%s`: for a mutable time type that mutates the time object in place -- the object __enter__ saved and the one Dynamic cached as "
                              "`_Dynamic_time` are that very object, so the context exit restores nothing and the cached value is served at every later time" % (g.name, norm(st)),
                 key="param.parameters.Time.%s::clock-mutated-in-place" % g.name, input="Time(time_type=<a mutable number type>): with t: t += 1 ...; t() is not restored")
    else:
        ctx.ok(rule, ctx.repo.func("param.parameters.Time.__iadd__"), None, "every method of Time rebinds self._time (%d assignments), none mutates it in place" % n)


def reads_never_force_a_draw(ctx, rule):
    """Reading a time-dependent dynamic parameter twice at the same time returns the same value: `_produce_value` draws a new
    value only when the time moved -- or when it is FORCED.  Forcing is reserved to the explicit API (`_force`,
    `Parameters.force_new_dynamic_value`): no other caller passes a `force` that can be true (the attribute read
    `Dynamic.__get__` in particular)."""
    ALLOWED = {"_force", "_produce_value", "force_new_dynamic_value"}
    n, bad = 0, []
    for g in ctx.repo.all_funcs("param"):
        for c in ast.walk(g.node):
            if isinstance(c, ast.Call) and isinstance(c.func, ast.Attribute) and c.func.attr == "_produce_value":
                n += 1
                forced = [k.value for k in c.keywords if k.arg == "force"] + list(c.args[1:2])
                if g.name not in ALLOWED and any(not (isinstance(v, ast.Constant) and v.value is False) for v in forced):
                    bad.append((g, c))
    ctx.require(n >= 2, "fewer than 2 calls of _produce_value found (%d)" % n)
    if bad:
        g, c = bad[0]
        ctx.fail(rule, g, c, "%s calls `%s`: a read that can force a new draw -- repeated reads at the same time return different values (and inspect_value reports whichever came last)" % (
            g.qualname.split(".", 2)[-1], norm(c)[:60]), key="%s::forced-read" % g.qualname, input="Dynamic.time_dependent = True; P.x; P.x  (class-level reads of a seeded UniformRandom)")
    else:
        ctx.ok(rule, ctx.repo.func("param.parameters.Dynamic.__get__"), None, "only the explicit forcing API passes force to _produce_value (%d call sites)" % n)
