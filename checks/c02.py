"""C02 -- a rejected assignment has no observable effect (DESIGN.md §3/C02)."""
from __future__ import annotations

import ast

from engine.cfg import Node
from engine.effects import EffectSummaries, primitive_effects
from engine.facts import calls_in
from engine.hierarchy import PARAMETER
from engine.loader import norm

REJECTING_CALLS = {"_validate", "set_hook"}   # may reject the value (explicit raises are added)


def rejection_points(cfg, extra_calls=()):
    out = []
    for n in cfg.live_nodes():
        if n.kind == "stmt" and isinstance(n.ast, ast.Raise):
            out.append((n, "raise"))
            continue
        for c in calls_in(n):
            if isinstance(c.func, ast.Attribute) and (c.func.attr in REJECTING_CALLS or c.func.attr in extra_calls):
                recv = c.func.value
                if isinstance(recv, ast.Name) and recv.id == "self" or (isinstance(recv, ast.Call) and norm(recv.func) == "super"):
                    out.append((n, "call %s" % c.func.attr))
                    break
    return out


def effect_nodes(ctx, f, cfg, summ, exclude_calls=()):
    aliases = ctx.facts.local_aliases(f)
    out = []
    for n in cfg.live_nodes():
        if n.kind in ("entry", "exit", "excexit", "br", "handler", "with_exit"):
            continue
        effs = ["%s %s" % (e.kind, e.what) for e in primitive_effects(ctx.facts, f, n, aliases, summ.wide)]
        for c in calls_in(n):
            if isinstance(c.func, ast.Attribute) and c.func.attr in exclude_calls:
                continue
            effs += summ.call_effects(c, f)
        effs = [e for e in effs if not any(e == "call %s" % x for x in exclude_calls)]
        if effs:
            out.append((n, effs))
    return out


def evaluation_registers_nothing(ctx, rule):
    """Parameter.__set__ must evaluate a reference BEFORE it can validate the value; when the value is then rejected,
    whatever that evaluation did stays.  So evaluating a reactive expression must register no watcher: no function
    reachable from rx._resolve (through self-method calls, rx properties read through self, and `<x>._resolve()` of a
    predecessor) calls a watcher-registering method (`_watch`, `watch`, `watch_values`)."""
    RX = "param.reactive.rx"
    cls = ctx.repo.cls(RX)
    start = ctx.repo.func(RX + "._resolve")
    getters = {m: [g for g in gs if g.has_decorator("property")] for m, gs in cls.methods.items()}
    props = {m: gs[0] for m, gs in getters.items() if gs}
    seen, work, order = set(), [start], []
    while work:
        g = work.pop()
        if g.qualname in seen:
            continue
        seen.add(g.qualname)
        order.append(g)
        selfname = g.params[0] if g.params else "self"
        for sub in ast.walk(g.node):
            if isinstance(sub, ast.Call) and isinstance(sub.func, ast.Attribute):
                recv, m = sub.func.value, sub.func.attr
                if (isinstance(recv, ast.Name) and recv.id == selfname) or m == "_resolve":
                    t = ctx.hier.resolve(RX, m)
                    if t is not None:
                        work.append(t)
            if isinstance(sub, ast.Attribute) and isinstance(sub.ctx, ast.Load) and isinstance(sub.value, ast.Name) and sub.value.id == selfname and sub.attr in props:
                work.append(props[sub.attr])
    ctx.require(len(order) >= 3, "the evaluation closure of rx._resolve has fewer than 3 functions (%d)" % len(order))
    bad = []
    for g in order:
        for c in ast.walk(g.node):
            if isinstance(c, ast.Call) and isinstance(c.func, ast.Attribute) and c.func.attr in ("_watch", "watch", "watch_values"):
                bad.append((g, c))
    if bad:
        g, c = bad[0]
        ctx.fail(rule, g, c, "evaluating a reactive expression registers a watcher (`%s` in %s, reachable from rx._resolve): Parameter.__set__ evaluates a reference before it validates the value, so an "
                             "assignment that is then REJECTED leaves a new watcher on the reference's source object" % (norm(c)[:80], g.qualname.rsplit(".", 1)[-1]),
                 key="%s::evaluation-registers-watcher" % g.qualname, input="t.x = src.param.v.rx() * 50   # never evaluated before, current value invalid for x -> rejected, src keeps a new watcher")
    else:
        ctx.ok(rule, start, start.node, "no function in the evaluation closure of rx._resolve (%d functions: %s) registers a watcher" % (len(order), ", ".join(sorted(g.name for g in order))[:200]))


def run(ctx):
    ctx.rule("R02.e", "Event model: Event.__set__ interpreted abstractly on mode (set-reset / set / reset) x the assignment proper succeeds / is refused / a watcher raises: in set-reset the Event is assigned and then reset whatever happens, in set (held so by update/trigger while it is delivered) it is assigned and NOT reset, in reset it is only reset", floor=1)
    ctx.rule("R02.a", "in Parameter.__set__ no observable effect (value store, link install/drop, task cancel, "
                      "dependency rebinding, watcher dispatch -- directly or through a callee) can precede a point "
                      "where the setter may still reject (explicit raise, self._validate, self.set_hook)", floor=6)
    ctx.rule("R02.a'", "every __set__ override performs its own effects only after super().__set__ (the rejecting call) returned", floor=2)
    ctx.rule("R02.b", "update's own unknown-key check precedes the first setattr of that key", floor=1)
    ctx.rule("R02.c", "validators notify nobody: no function reachable from any Parameter type's _validate dispatches watchers (no _trigger_event/_call_watcher/flush, "
                      "no ListProxy notification scope, no mutator call on the objects proxy)", floor=30)
    ctx.rule("R02.w", "the public update() adds nothing to a rejection: Parameters.update interpreted abstractly with a rejecting _update (instance and class namespace, keywords / dict): "
                      "the exception propagates and no further assignment, update or dispatch is made on the way out (a 'rollback' through the setter would drop links and notify watchers)", floor=1)
    ctx.rule("R02.x", "class route, first set on a subclass: the per-class copy of an inherited Parameter that the metaclass installs before calling __set__ does not outlive a rejection -- "
                      "the exceptional exit of that __set__ call removes the copy again (otherwise the subclass silently stops following later changes of the ancestor's default)", floor=1)
    ctx.rule("R02.y", "validators change nothing: no function reachable from any Parameter type's _validate stores into a slot of the Parameter (self.<slot> = ..., in-place mutation of "
                      "self.<slot>) or calls a state-changing method of it (update / compute_default / _update_state); frozen exclusion: Selector._ensure_value_is_in_objects, the documented "
                      "auto-append of check_on_set=False (known finding R18.f)", floor=30)
    ctx.rule("R02.p", "the post-store hook cannot reject: no _post_setter override, nor any method of the same Parameter type it calls on itself (transitively, generators included), contains a "
                      "raise statement -- the hook runs after the value was stored, so a rejection raised there leaves the value (and, for Composite, the constituents already assigned) behind", floor=2)
    ctx.rule("R02.d", "Dynamic set model: Dynamic.__set__ interpreted (instance / class route; a number, a generator, a callable reference resolving to a number or to a generator): generator state is "
                      "attached to the value that was stored when it is a callable, never to the reference itself (a bound method cannot carry it: the assignment would raise after the store "
                      "and the link)", floor=1)
    ctx.rule("R02.q", "the (un)linking step cannot reject: the closure of Parameter._relink -- Parameters._update_ref, _setup_refs and whatever else they call on the namespace -- contains no raise "
                      "statement and never re-enters the setter (update / _update / setattr / _validate); it runs after the value was stored and after the old source watchers were removed, so "
                      "a rejection there leaves the value changed, nobody notified and every link of the object dead (not followed: the module helper extract_dependencies, whose resolution "
                      "already ran in _resolve_ref before the store)", floor=3)
    ctx.rule("R02.m", "setter model: Parameter.__set__ interpreted abstractly on every combination (576) of route x constant/readonly x validation outcome x identity x reference mode x watchers x batching agrees with the specification of this property (see checks/setter_model.py)", floor=1)
    ctx.rule("R02.v", "evaluating a reference registers nothing: no function reachable from rx._resolve (self-method calls, rx properties, a predecessor's _resolve) calls _watch / watch / "
                      "watch_values -- Parameter.__set__ evaluates the reference before it validates, so a watcher registered there survives a rejected assignment", floor=1)
    ctx.rule("R02.u", "update model: Parameters._update interpreted abstractly (entry batching flag x key orders incl. an Event key x a rejected or unknown key at every position x a value identical to the current one, 60 cases): flag restored, flush exactly once iff outermost and after the restore, keys applied in order up to the failing one, Event mode and reset, complete previous-values mapping", floor=1)
    evaluation_registers_nothing(ctx, "R02.v")
    ctx.rule("R02.k", "constructor model (shared with R05.k): Parameters._setup_params installs no link (no watcher on a source object) while keywords are still being applied -- a keyword rejected "
                      "later must leave the watchers registered on every other object as they were", floor=1)
    from checks import ctor_model
    ctor_model.report(ctx, "C02", "R02.k")
    ctx.rule("R02.z", "no rejection after the one validator that may extend the Parameter: in Parameter.__set__ no raise is reachable (normal edges of the CFG) after self._validate(val) as "
                      "long as Selector._ensure_value_is_in_objects appends the offered value (check_on_set=False)", floor=1)
    no_rejection_after_a_validator_with_effects(ctx, "R02.z")
    ctx.rule("R02.j", "a refused class-level assignment leaves the watchers registered on the subclass's Parameter: the per-class copy the metaclass installs is not built with the per-instance "
                      "helper (which empties the watcher table)", floor=1)
    per_class_copy_keeps_the_watchers(ctx, "R02.j")
    ctx.not_decided += ["that callees are effect-free before their own raises (Composite._post_setter assigns constituents one by one)",
                        "equality of the complete observable state before/after (needs execution)"]
    ctx.assumptions.append("frozen exclusion: the scheduling done inside _resolve_ref for coroutine references (there is no current value to reject)")
    summ = EffectSummaries(ctx.facts, depth=3 if ctx.tier == "quick" else 5, wide=True)

    f = ctx.repo.method(PARAMETER, "__set__")
    cfg = ctx.facts.cfg(f)
    rejs = rejection_points(cfg)
    ctx.require(any(k == "call _validate" for _, k in rejs), "Parameter.__set__ no longer calls self._validate: anchor of R02.a vanished")
    effs = effect_nodes(ctx, f, cfg, summ)
    ctx.require(len(effs) >= 6, "fewer than 6 effect sites recognised in Parameter.__set__ (found %d)" % len(effs))
    rej_ids = {n.id: k for n, k in rejs}
    # a rejecting call is not itself an effect (whether callees are effect-free
    # before their own raises is not decided here)
    effs = [(n, w) for n, w in effs if n.id not in rej_ids]
    ctx.extra["rejection_points"] = ["L%d %s" % (n.lineno, n.text()[:80]) for n, _ in rejs]
    for e, what in effs:
        reach = cfg.reachable_from([e], labels={"n", "t", "f"})
        later = [r for r in reach if r.id in rej_ids and r is not e]
        if not later:
            ctx.ok("R02.a", f, e, "effect (%s); no rejection point can follow" % what[0])
        else:
            r = min(later, key=lambda n: n.lineno)
            p = cfg.path(e, r) or [e, r]
            ctx.fail("R02.a", f, e,
                     "the effect `%s` (%s) happens before `%s`, which may still reject the assignment: a rejected value "
                     "leaves this effect behind" % (e.text(), what[0], r.text()[:90]),
                     witness=cfg.witness(p),
                     input="t = T(n=s_ok.param.v); s_bad.v = <invalid for n>; t.n = s_bad.param.v  -> raises AND relinks")

    # overrides: own effects only after super().__set__ returned
    for g in ctx.hier.overrides(PARAMETER, "__set__"):
        if g is f:
            continue
        gc = ctx.facts.cfg(g)
        sup = [n for n in gc.live_nodes() for c in calls_in(n)
               if isinstance(c.func, ast.Attribute) and c.func.attr == "__set__"
               and isinstance(c.func.value, ast.Call) and norm(c.func.value.func) == "super"]
        ctx.require(sup, "%s does not delegate to super().__set__" % g.qualname)
        sup_ids = {n.id for n in sup}
        geffs = [(n, w) for n, w in effect_nodes(ctx, g, gc, summ) if n.id not in sup_ids]
        # any effect of the override (incl. plain helper calls that store) ...
        own = geffs + [(n, ["call %s" % c.func.attr]) for n in gc.live_nodes() if n.id not in sup_ids for c in calls_in(n)
                       if isinstance(c.func, ast.Attribute) and isinstance(c.func.value, ast.Name) and c.func.value.id == "self"
                       and c.func.attr.startswith("_") and not any(n is m for m, _ in geffs)]
        bad = False
        for e, what in own:
            reach = gc.reachable_from([e], labels={"n", "t", "f"})
            if any(r.id in sup_ids for r in reach):
                bad = True
                ctx.fail("R02.a'", g, e, "the override performs `%s` before super().__set__ (which validates and may reject)" % e.text())
        if not bad:
            ctx.ok("R02.a'", g, sup[0], "%d own effect site(s), none can precede super().__set__" % len(own))

    # R02.b
    u = ctx.repo.func("param.parameterized.Parameters._update")
    uc = ctx.facts.cfg(u)
    setattrs = [n for n in uc.live_nodes() for c in calls_in(n)
                if isinstance(c.func, ast.Name) and c.func.id == "setattr" and len(c.args) == 3 and isinstance(c.args[1], ast.Name)]
    loop_sets = []
    for n in setattrs:
        c = [c for c in calls_in(n) if isinstance(c.func, ast.Name) and c.func.id == "setattr"][0]
        key = c.args[1].id
        conds = uc.conditions(n)
        # dominated by the false arm of `key not in self_`  (== true arm of `key in self_`)
        guarded = any(isinstance(e, ast.Compare) and isinstance(e.left, ast.Name) and e.left.id == key
                      and isinstance(e.ops[0], ast.In) and t is True for e, t in conds)
        in_kw_loop = any(isinstance(t, (ast.For,)) and "kwargs" in norm(t.iter) for t in _enclosing_fors(u.node, n.ast))
        if in_kw_loop:
            loop_sets.append(n)
            if guarded:
                ctx.ok("R02.b", u, n, "setattr of key `%s` is dominated by the membership check" % key)
            else:
                ctx.fail("R02.b", u, n, "setattr of key `%s` is not dominated by the `%s in self_` check: an unknown key is applied before it is rejected" % (key, key))
    ctx.require(loop_sets, "the per-key setattr loop of Parameters._update was not found")

    # R02.c
    DISPATCH = {"_trigger_event", "_call_watcher", "_batch_call_watchers", "_execute_watcher", "trigger", "_trigger"}
    PROXY_MUT = {"append", "extend", "insert", "pop", "remove", "clear", "update", "__setitem__"}
    for q in ctx.hier.parameter_classes():
        if ctx.hier.resolve(q, "_validate") is None:
            continue
        bad = None
        clos = ctx.hier.self_closure(q, "_validate")
        for g in clos:
            for c in ast.walk(g.node):
                if isinstance(c, ast.Call) and isinstance(c.func, ast.Attribute):
                    if c.func.attr in DISPATCH:
                        bad = bad or (g, c, "dispatches via %s" % c.func.attr)
                    if c.func.attr in PROXY_MUT and norm(c.func.value) == "self.objects":
                        bad = bad or (g, c, "mutates the objects proxy (which notifies `objects` watchers)")
            for w in ast.walk(g.node):
                if isinstance(w, ast.With) and any(isinstance(i.context_expr, ast.Call) and isinstance(i.context_expr.func, ast.Attribute)
                                                   and i.context_expr.func.attr == "_trigger" for i in w.items):
                    bad = bad or (g, w, "enters a ListProxy notification scope")
        if bad:
            g, node, how = bad
            ctx.fail("R02.c", g, node, "%s (reached from %s._validate) %s: watchers run during validation, i.e. before the constant/readonly check can still reject the assignment" % (
                g.qualname.rsplit(".", 2)[-2] + "." + g.name, q.rsplit(".", 1)[-1], how), key="%s::validator-notifies" % g.qualname,
                input="constant Selector(check_on_set=False) with an `objects` watcher; p.x = <new value> raises TypeError but the watcher has already run")
        else:
            ctx.ok("R02.c", ctx.hier.resolve(q, "_validate"), None, "%s: %d validator function(s), none notifies" % (q.rsplit(".", 1)[-1], len(clos)))

    # R02.y
    STATE_METHODS = {"update", "compute_default", "_update_state", "_on_set"}
    MUT = {"append", "extend", "insert", "pop", "remove", "clear", "update", "setdefault", "__setitem__", "sort"}
    PURE_EXCLUDED = {"_ensure_value_is_in_objects"}
    STORE_EXCLUDED = {("param.parameters.DataFrame._validate", "ordered"):
                      "DataFrame normalises its declared `ordered` option (None -> whether `columns` is a list) the first time it validates; the result does not depend on the offered value"}
    for q in ctx.hier.parameter_classes():
        if ctx.hier.resolve(q, "_validate") is None:
            continue
        bad = None
        clos = ctx.hier.self_closure(q, "_validate")
        for g in clos:
            if g.name in PURE_EXCLUDED:
                continue
            selfn = g.params[0] if g.params else "self"
            for st in ast.walk(g.node):
                if isinstance(st, (ast.Assign, ast.AugAssign)):
                    for t in (st.targets if isinstance(st, ast.Assign) else [st.target]):
                        base = t.value if isinstance(t, ast.Subscript) else t
                        if isinstance(base, ast.Attribute) and isinstance(base.value, ast.Name) and base.value.id == selfn:
                            if (g.qualname, base.attr) in STORE_EXCLUDED:
                                ctx.info("R02.y", g, st, "frozen exclusion: %s" % STORE_EXCLUDED[(g.qualname, base.attr)])
                                continue
                            bad = bad or (g, st, "stores into `%s`" % norm(base))
                if isinstance(st, ast.Call) and isinstance(st.func, ast.Attribute):
                    recv = st.func.value
                    if isinstance(recv, ast.Name) and recv.id == selfn and st.func.attr in STATE_METHODS and st.func.attr not in PURE_EXCLUDED:
                        bad = bad or (g, st, "calls self.%s(), which rewrites the Parameter's own slots" % st.func.attr)
                    if st.func.attr in MUT and isinstance(recv, ast.Attribute) and isinstance(recv.value, ast.Name) and recv.value.id == selfn:
                        bad = bad or (g, st, "mutates `%s` in place" % norm(recv))
        if bad:
            g, node, how = bad
            ctx.fail("R02.y", g, node, "%s (reached from %s._validate) %s: merely offering a value -- which may then be rejected -- changes the Parameter (default, objects, ...) and with it "
                                       "what the class and every instance see, without any watcher being told" % (g.qualname.rsplit(".", 2)[-2] + "." + g.name, q.rsplit(".", 1)[-1], how),
                     key="%s::validator-changes-state" % g.qualname, input="P.f = <file that does not exist> (rejected) changes P.f when the selected file was removed from disk meanwhile")
        else:
            ctx.ok("R02.y", ctx.hier.resolve(q, "_validate"), None, "%s: %d validator function(s), none changes the Parameter" % (q.rsplit(".", 1)[-1], len(clos)))

    from checks.shared import event_model
    event_model(ctx, "R02.e", "C02")
    # R02.p: post-store hooks do not reject
    posts = [g for g in ctx.repo.funcs.values() if g.name == "_post_setter" and g.cls is not None]
    ctx.require(len(posts) >= 2, "fewer than 2 _post_setter definitions found")
    for g in posts:
        seen, todo, hit = {g.qualname}, [g], None
        while todo and hit is None:
            h = todo.pop()
            for n in ast.walk(h.node):
                if isinstance(n, ast.Raise):
                    hit = (h, n)
                    break
                if isinstance(n, ast.Call) and isinstance(n.func, ast.Attribute) and isinstance(n.func.value, ast.Name) and h.params and n.func.value.id == h.params[0]:
                    t = ctx.hier.resolve(g.cls.qualname, n.func.attr)
                    if t is not None and t.qualname not in seen and not n.func.attr.startswith("__"):
                        seen.add(t.qualname)
                        todo.append(t)
        if hit is None:
            ctx.ok("R02.p", g, g.node, "%s and the %d method(s) it calls on itself never raise explicitly" % (g.qualname.split("parameter")[-1].lstrip("s."), len(seen) - 1))
        else:
            h, n = hit
            ctx.fail("R02.p", h, n, "%s (run after the value was stored%s) rejects the assignment: `%s` -- the stored value, and whatever the hook already did, stay behind" % (
                g.qualname, "" if h is g else ", through %s" % h.name, ast.unparse(n)[:80]), key="%s::post-setter-rejects::%s" % (g.qualname, h.name))

    from checks.shared import dynamic_set_model
    dynamic_set_model(ctx, "R02.d")

    # R02.q: the linking step does not reject
    PARAMS_Q = "param.parameterized.Parameters"
    start = ctx.repo.method(PARAMETER, "_relink")
    seen, todo, n_q = {start.qualname}, [start], 0
    while todo:
        h = todo.pop()
        n_q += 1
        me = h.params[0] if h.params else None
        bad = None
        for n in ast.walk(h.node):
            if isinstance(n, ast.Raise):
                bad = (n, "raises (`%s`)" % norm(n)[:70])
                break
            if isinstance(n, ast.Call):
                nm = n.func.attr if isinstance(n.func, ast.Attribute) else (n.func.id if isinstance(n.func, ast.Name) else None)
                if nm in ("update", "_update", "setattr", "_validate") and not (isinstance(n.func, ast.Attribute) and isinstance(n.func.value, ast.Name) and n.func.value.id in ("updates", "d", "kwargs")):
                    bad = (n, "re-enters the setter (`%s`), whose validation may reject" % norm(n)[:70])
                    break
                # followed: the namespace of the object being assigned -- `obj.param.<m>` in Parameter._relink, `self_.<m>` inside class Parameters;
                # registrations on OTHER objects' namespaces (the sources: owner.param._watch / .param.unwatch) are not part of this closure
                if isinstance(n.func, ast.Attribute) and ((h is start and norm(n.func.value) == "obj.param") or (
                        isinstance(n.func.value, ast.Name) and n.func.value.id == me and h.cls is not None and h.cls.qualname == PARAMS_Q)):
                    t = ctx.hier.resolve(PARAMS_Q, n.func.attr)
                    if t is not None and t.qualname not in seen:
                        seen.add(t.qualname)
                        todo.append(t)
        if bad is None:
            ctx.ok("R02.q", h, h.node, "%s neither raises nor re-enters the setter" % h.qualname.rsplit(".", 2)[-1])
        else:
            ctx.fail("R02.q", h, bad[0], "%s, part of the (un)linking step that Parameter.__set__ runs after storing the value, %s: the assignment fails with the value already changed, "
                                         "no event sent and the object's source watchers already removed" % (h.qualname, bad[1]), key="%s::link-step-rejects" % h.qualname)
    ctx.require(n_q >= 3, "the closure of Parameter._relink has fewer than 3 functions (%d)" % n_q)

    # model-level rule, run last (see DESIGN §10)
    from checks import setter_model
    setter_model.report(ctx, "C02", "R02.m")

    from checks import update_model
    update_model.report(ctx, "C02", "R02.u")

    # ---------------------------------------------------------------- R02.x
    ms = ctx.repo.func("param.parameterized.ParameterizedMetaclass.__setattr__")
    mcfg = ctx.facts.cfg(ms)
    installs = [n for n in mcfg.live_nodes() for c in calls_in(n) if norm(c.func) == "type.__setattr__" and any("owning_class" in norm(e) for e, t in mcfg.conditions(n))]
    sets_ = [n for n in mcfg.live_nodes() for c in calls_in(n) if isinstance(c.func, ast.Attribute) and c.func.attr == "__set__" and c.args and norm(c.args[0]) == "None"]
    ctx.require(installs and sets_, "the copy-on-write branch of the metaclass __setattr__ was not found")
    for sn in sets_:
        if not any(any(r is sn for r in mcfg.reachable_from([i])) for i in installs):
            ctx.ok("R02.x", ms, sn, "no per-class copy is installed before this __set__")
            continue
        seen, stack, leaves_copy = set(), [t for l, t in sn.succ if l == "e"], False
        while stack:
            n = stack.pop()
            if n.id in seen:
                continue
            seen.add(n.id)
            if any(norm(c.func) in ("type.__delattr__", "delattr") for c in calls_in(n)):
                continue
            if n is mcfg.excexit:
                leaves_copy = True
                break
            stack.extend(t for l, t in n.succ)
        if leaves_copy:
            ctx.fail("R02.x", ms, sn, "`%s` may reject the value after the per-class copy of the inherited Parameter was installed, and nothing removes the copy on that exit: "
                                      "the rejected assignment leaves the subclass with its own Parameter, so later changes of the ancestor's default no longer reach it" % sn.text()[:60],
                     key=ms.qualname + "::copy-left-after-rejection", input="class Sub(Base): pass; Sub.x = <rejected>; Base.x = 5 -> Sub.x keeps the old default")
        else:
            ctx.ok("R02.x", ms, sn, "the copy is removed again when __set__ raises")

    # ---------------------------------------------------------------- R02.w
    from engine.absint import Interp, Obj, Unsupported, _Raise
    from engine.loader import AnalysisError
    up = ctx.repo.func("param.parameterized.Parameters.update")
    UNDEF = Obj("Undefined")
    bad = None
    for instance, form in ((True, "kw"), (True, "dict"), (False, "kw")):
        calls = []

        def hook(fn, args, kwargs, calls=calls):
            if fn in ("self_._update", "self_.update"):
                calls.append(fn)
                if len(calls) == 1:
                    raise _Raise("ValueError")
                return {}
            if fn == "setattr" or fn.endswith("._batch_call_watchers") or fn.endswith(".trigger"):
                calls.append(fn)
                return None
            if fn == "self_.values":
                return {"a": Obj("current_a"), "b": Obj("current_b")}
            if fn == "_ParametersRestorer":
                return Obj("restorer")
            return NotImplemented
        inst = Obj("instance", _param__private=Obj("private", refs={"a": Obj("ref_of_a")}, async_refs={})) if instance else None
        ns = Obj("ns", self=inst, self_or_cls=inst or Obj("Cls"))
        given = {"a": Obj("new_a"), "b": Obj("rejected_b")}
        it = Interp(ctx.hier, dyn="param.parameterized.Parameters", inline=lambda m: False, call_hook=hook, globals={"Undefined": UNDEF})
        try:
            outs = it.run_all(up, {"self_": ns, "arg": UNDEF if form == "kw" else dict(given), "kwargs": dict(given) if form == "kw" else {}})
        except Unsupported as e:
            raise AnalysisError("absint cannot interpret Parameters.update: %s -- R02.w cannot decide" % e)
        ctx.abstract_cases += 1
        if len(outs) != 1 or outs[0].imprecise:
            raise AnalysisError("absint imprecise on Parameters.update with a rejecting _update -- R02.w cannot decide")
        if outs[0].kind != "raise":
            bad = "the rejection of a value does not propagate out of update()"
        elif len(calls) != 1:
            bad = "after _update rejected a value, update() goes on to call %s: parameters are assigned again through the setter (links are dropped, watchers are notified) by a call that raises" % ", ".join(calls[1:])
        if bad:
            break
    if bad:
        ctx.fail("R02.w", up, up.node, bad, key=up.qualname + "::acts-after-rejection", input="t = T(x=s.param.v); t.param.update(x=<invalid>) -> raises AND t.x is unlinked")
    else:
        ctx.ok("R02.w", up, up.node, "3 abstract cases: the rejection propagates and nothing else is done")


def _enclosing_fors(fnode, target):
    out = []

    def visit(node, stack):
        if node is target:
            out.extend(stack)
            return True
        for ch in ast.iter_child_nodes(node):
            if visit(ch, stack + ([node] if isinstance(node, ast.For) else [])):
                return True
        return False
    visit(fnode, [])
    return out


def no_rejection_after_a_validator_with_effects(ctx, rule):
    """The one validator that is ALLOWED to change the Parameter -- Selector._ensure_value_is_in_objects, which extends
    `objects` with a value offered to a check_on_set=False selector (the frozen exclusion of R02.y) -- makes the ORDER of
    the tests in Parameter.__set__ matter: a `raise` that can still be reached after `self._validate(val)` (the
    constant / read-only rejection) refuses the assignment when the objects were already extended."""
    f = ctx.repo.func("param.parameterized.Parameter.__set__")
    cfg = ctx.facts.cfg(f)
    vals = [n for n in cfg.live_nodes() if n.kind == "stmt" and n.ast is not None and any(
        isinstance(c, ast.Call) and isinstance(c.func, ast.Attribute) and c.func.attr == "_validate" and isinstance(c.func.value, ast.Name) and c.func.value.id == f.params[0] for c in ast.walk(n.ast))]
    ctx.require(vals, "Parameter.__set__ no longer calls self._validate")
    # does a validator with effects still exist?
    sel = ctx.hier.resolve("param.parameters.Selector", "_ensure_value_is_in_objects")
    if sel is None or not any(isinstance(c, ast.Call) and isinstance(c.func, ast.Attribute) and c.func.attr in ("append", "extend", "insert") for c in ast.walk(sel.node)):
        ctx.ok(rule, f, vals[0], "no validator extends the Parameter any more: the order of validation and rejection does not matter")
        return
    after = cfg.reachable_from(vals, labels={"n", "t", "f"})
    raises = [n for n in after if n.kind == "stmt" and isinstance(n.ast, ast.Raise)]
    if raises:
        r = sorted(raises, key=lambda n: n.lineno)[0]
        ctx.fail(rule, f, r, "`%s` can still be reached after self._validate(val) ran: for a Selector with check_on_set=False the validator has already appended the offered value to `objects` "
                             "when the constant / read-only test refuses the assignment -- the assignment raises, yet the Parameter (the objects it accepts, its schema, get_range()) has changed" % norm(r.ast)[:80],
                 key=f.qualname + "::rejection-after-extending-validator", input="s = Selector(objects=[1, 2], check_on_set=False, constant=True); p.s = 99 -> TypeError, p.param.s.objects == [1, 2, 99]")
    else:
        ctx.ok(rule, f, vals[0], "no raise statement of Parameter.__set__ is reachable after self._validate(val): a value the unchecked-Selector validator appended is never refused afterwards")


def per_class_copy_keeps_the_watchers(ctx, rule):
    """The per-class copy the metaclass installs for an inherited Parameter (before the copy's __set__ can still REFUSE the
    value -- the known finding R02.x) is a plain `copy.copy(parameter)`: it carries every slot, the class-level watcher
    table included.  Built with the per-INSTANCE helper `_instantiate_param_obj` (which starts the copy with an empty
    watcher table) a refused `Sub.x = bad` would also drop the watchers registered on Sub.x."""
    ms = ctx.repo.func("param.parameterized.ParameterizedMetaclass.__setattr__")
    installs = [c for c in ast.walk(ms.node) if isinstance(c, ast.Call) and norm(c.func) == "type.__setattr__" and len(c.args) == 3 and isinstance(c.args[2], ast.Name)]
    made = []
    for c in installs:
        v = c.args[2].id
        made += [st.value for st in ast.walk(ms.node) if isinstance(st, ast.Assign) and any(isinstance(t, ast.Name) and t.id == v for t in st.targets)
                 and isinstance(st.value, ast.Call)]
    ctx.require(installs, "ParameterizedMetaclass.__setattr__ no longer installs attributes through type.__setattr__")
    helpers = [m for m in made if norm(m.func).rsplit(".", 1)[-1] in ("_instantiate_param_obj", "_instantiated_parameter")]
    if helpers:
        ctx.fail(rule, ms, helpers[0], "the per-class copy of an inherited Parameter is built with `%s`, the helper for per-INSTANCE copies, which starts the copy with an empty watcher table: the copy "
                                       "is installed before its __set__ validates, so a REFUSED class-level assignment on the subclass removes the watchers registered there (those of Parameter "
                                       "attributes are not even carried over on success)" % norm(helpers[0])[:60], key=ms.qualname + "::per-class-copy-loses-watchers",
                 input="Sub.param.watch(cb, 'x', what='bounds'); Sub.x = <invalid> (refused) -> cb no longer fires for Sub.param.x.bounds = ...")
    else:
        ctx.ok(rule, ms, installs[0], "the per-class copy is not built with the per-instance helper (it keeps the inherited Parameter's watcher table)")
