"""bind model (C08 / C09): the dependency extraction of param.bind interpreted abstractly.

bind(f, N1, N2, P0, k1=N3, k2=P1) where N1, N2, N3 are bound functions /
reactive references (they carry `_dinfo`: N1 depends on d1; N2 on d2 and, by
keyword, on d3; N3 on d4 and d5) and P0, P1 are Parameters.

Specification: the dependencies handed to `depends(...)` -- what a linked
parameter's source watchers and an expression's invalidation watchers are
built from -- contain every one of d1..d5, P0 and P1, each under its own key,
and watch is passed through.  Generator expressions are interpreted lazily
(late binding), as Python does.
"""
from __future__ import annotations

from engine.absint import Interp, Obj, PyFunc, Unsupported
from engine.loader import AnalysisError


def model(ctx):
    f = ctx.repo.func("param.reactive.bind")
    d = [Obj("dependency_d%d" % i, __kind__="Parameter") for i in range(1, 6)]
    N1 = Obj("nested_reference_1", _dinfo={"dependencies": [d[0]], "kw": {}})
    N2 = Obj("nested_reference_2", _dinfo={"dependencies": [d[1]], "kw": {"scale": d[2]}})
    N3 = Obj("nested_reference_3", _dinfo={"dependencies": [d[3], d[4]], "kw": {}})
    P0, P1 = Obj("Parameter_P0", __kind__="Parameter"), Obj("Parameter_P1", __kind__="Parameter")
    fn = Obj("plain_function", __callable__=True)
    captured = []

    def depends(*a, **kw):
        captured.append(dict(kw))
        return PyFunc("depends_decorator", lambda clo: Obj("wrapped_function", _dinfo={"dependencies": list(a), "kw": dict(kw)}))

    def hook(name, args, kwargs):
        if name == "transform_reference":
            return args[0]
        if name == "isinstance" and len(args) == 2:
            return isinstance(args[0], Obj) and args[0].attrs.get("__kind__") == "Parameter"
        if name == "hasattr" and len(args) == 2:
            return isinstance(args[0], Obj) and args[1] in args[0].attrs
        if name == "depends":
            return depends(*args, **kwargs)
        if name in ("inspect.isgeneratorfunction", "inspect.isasyncgenfunction", "iscoroutinefunction"):
            return False
        if name == "reactive_ops":
            return Obj("rx_namespace")
        return NotImplemented
    it = Interp(ctx.hier, call_hook=hook, globals={"Parameter": "<Parameter>", "_display_accessors": {}, "_reactive_display_objs": set()})
    it.lazy_generators = True
    try:
        outs = it.run_all(f, {"function": fn, "args": (N1, N2, P0), "watch": True, "kwargs": {"k1": N3, "k2": P1}})
    except Unsupported as e:
        raise AnalysisError("bind model: absint cannot interpret param.bind: %s" % e)
    if len(outs) != 1 or outs[0].imprecise or outs[0].kind != "return":
        raise AnalysisError("bind model: param.bind is not interpretable precisely (%s)" % (outs[0].notes[:2] if outs else "no outcome"))
    problems = []
    if len(captured) != 1:
        problems.append("depends(...) is applied %d time(s)" % len(captured))
    else:
        kw = captured[0]
        if kw.get("watch") is not True:
            problems.append("watch=True is not passed on to depends()")
        vals = [v for k, v in kw.items() if k != "watch"]
        for want in d + [P0, P1]:
            if not any(v is want for v in vals):
                problems.append("%s is not among the dependencies handed to depends() (%d recorded: %s): no watcher is installed on that source, so the bound function / linked parameter "
                                "/ expression silently stops following it" % (want.name, len(vals), sorted(getattr(v, "name", str(v)) for v in vals)))
    return 1, problems


def report(ctx, rule):
    n, problems = model(ctx)
    f = ctx.repo.func("param.reactive.bind")
    ctx.abstract_cases += n
    if problems:
        ctx.fail(rule, f, f.node, "bind model: bind(f, N1, N2, P0, k1=N3, k2=P1): %s (%d problem(s))" % (problems[0], len(problems)), key=f.qualname + "::bind-model",
                 input="t.a = bind(f, bind(g, s1.param.x), bind(h, s2.param.y)); s2.y = 1 -> t.a is not updated")
    else:
        ctx.ok(rule, f, f.node, "bind model: every dependency of every nested reference (positional and keyword) and every directly bound Parameter reaches depends(), each under its own key")
