"""C05 -- failures never corrupt the dispatch state (DESIGN.md §3/C05).

Transient dispatcher state is tracked per function and per field; every write
gets a role (save / ORIG-write / TEMP-write) and the rules are stated on roles
and on the lexical exception coverage of the may-raise nodes that follow a
TEMP-write.
"""
from __future__ import annotations

import ast
from typing import Dict, List, Optional, Set, Tuple

from engine.cfg import CFG, Node, decompose, walk_no_nested
from engine.facts import TRACKED_STATE, calls_in, stores_in
from engine.loader import AnalysisError, Func, norm, norm_stmt

DISPATCH_FIELDS = list(TRACKED_STATE) + ["private.syncing"]
# fields tracked only in the function the property names (frozen, DESIGN §3/C05)
LOCAL_FIELDS = {
    "param.parameterized.edit_constant": ["attr.constant"],
    "param.parameterized.Parameters._update": ["attr._mode"],
}
# functions that define the storage itself, not a temporary scope
STORAGE = {
    "param.parameterized.Parameters._BATCH_WATCH@setter", "param.parameterized.Parameters._TRIGGER@setter",
    "param.parameterized.Parameters._events@setter", "param.parameterized.Parameters._state_watchers@setter",
    "param.parameterized.Parameters.__setstate__",
    "param.parameterized._InstancePrivate.__init__", "param.parameterized._ClassPrivate.__init__",
    "param.parameterized._InstancePrivate.__setstate__", "param.parameterized._ClassPrivate.__setstate__",
}


# scopes that queue events on the caller's behalf and therefore must deliver them on exit
FLUSHING_SCOPES = {"param.parameterized._batch_call_watchers", "param.parameterized.batch_call_watchers",
                   "param.parameterized.Parameters._update"}


def field_of_target(ctx, f: Func, t, aliases, local_fields) -> Optional[str]:
    if isinstance(t, ast.Name):
        return None  # rebinding a local (e.g. the save itself) is not a write of the field
    fld = ctx.facts.field_of(t, aliases)
    if fld in DISPATCH_FIELDS:
        return fld
    if isinstance(t, ast.Attribute) and ("attr." + t.attr) in local_fields:
        return "attr." + t.attr
    return None


def reads_field(ctx, expr, fld, aliases) -> bool:
    for sub in ast.walk(expr):
        if isinstance(sub, (ast.Attribute, ast.Subscript, ast.Name)):
            if isinstance(sub, ast.Attribute) and fld.startswith("attr.") and sub.attr == fld[5:]:
                return True
            if ctx.facts.field_of(sub, aliases) == fld:
                return True
    return False


class Scope:
    """Roles of the writes of one field in one function."""

    def __init__(self, ctx, f: Func, fld: str, cfg: CFG, writes: List[Tuple[Node, ast.AST]], aliases):
        self.f, self.fld, self.cfg = f, fld, cfg
        self.writes = writes            # (node, value-expr) ; value None for del
        self.saves: Set[str] = set()
        write_nodes = [w for w, _ in writes]
        for n in cfg.live_nodes():
            if n.kind != "stmt" or not isinstance(n.ast, ast.Assign) or len(n.ast.targets) != 1:
                continue
            tgt, val = n.ast.targets[0], n.ast.value
            pairs = []
            if isinstance(tgt, ast.Name):
                pairs = [(tgt, val)]
            elif isinstance(tgt, ast.Tuple) and isinstance(val, ast.Tuple) and len(tgt.elts) == len(val.elts):
                pairs = [(a, b) for a, b in zip(tgt.elts, val.elts) if isinstance(a, ast.Name)]
            for a, b in pairs:
                if reads_field(ctx, b, fld, aliases):
                    # a save precedes every write of the field
                    if all(cfg.dominates(n, w) for w in write_nodes):
                        self.saves.add(a.id)
        self.orig: List[Node] = []
        self.temp: List[Node] = []
        if self.saves:
            for w, v in writes:
                if isinstance(v, ast.Name) and v.id in self.saves:
                    self.orig.append(w)
                else:
                    self.temp.append(w)
            self.orig_desc = "the saved local %s" % "/".join(sorted(self.saves))
        else:
            last = max(writes, key=lambda wv: (wv[0].lineno, getattr(wv[0].ast, "col_offset", 0)))
            const = norm(last[1])
            for w, v in writes:
                (self.orig if norm(v) == const else self.temp).append(w)
            self.orig_desc = "the constant %s (lexically last write)" % const
        self.orig_asts = {id(w.ast) for w in self.orig}
        # A flag that is saved and overwritten but never written back is a broken
        # scope; for the queues, reading them into a local and emptying them is a
        # legitimate drain (the flush), so they need an ORIG-write to count.
        flag = fld in ("_BATCH_WATCH", "_TRIGGER", "private.syncing", "attr.constant", "attr._mode")
        self.is_temp_scope = bool(self.temp) and (bool(self.orig) or (flag and bool(self.saves)))

    def contains_orig(self, stmts) -> bool:
        for s in stmts:
            for sub in ast.walk(s):
                if id(sub) in self.orig_asts:
                    return True
        return False

    def protected(self, r: Node) -> Optional[str]:
        """Why the exceptional exit of r is covered, or None."""
        for t, part in reversed(r.lex):
            if isinstance(t, ast.Try):
                if part in ("try",) and t.finalbody and self.contains_orig(t.finalbody):
                    return "finally at L%d restores" % t.finalbody[0].lineno
                if part == "body":
                    for h in t.handlers:
                        if h.type is None or norm(h.type) in ("Exception", "BaseException"):
                            if self.contains_orig(h.body):
                                return "catch-all handler at L%d restores" % h.lineno
                            if not any(isinstance(x, ast.Raise) for s in h.body for x in ast.walk(s)):
                                return "absorbed by the catch-all handler at L%d" % h.lineno
        return None


def find_scopes(ctx) -> List[Scope]:
    scopes = []
    for f in ctx.repo.all_funcs("param"):
        if f.qualname in STORAGE:
            continue
        if any(d.endswith(".setter") for d in f.decorators) and f.cls is not None and f.cls.name == "Parameters":
            continue
        local_fields = LOCAL_FIELDS.get(f.qualname, [])
        # cheap pre-filter: does the function store to a tracked attribute at all?
        has = False
        for sub in ast.walk(f.node):
            if isinstance(sub, ast.Attribute) and isinstance(sub.ctx, ast.Store):
                if sub.attr in TRACKED_STATE or sub.attr == "syncing" or ("attr." + sub.attr) in local_fields:
                    has = True
                    break
            if isinstance(sub, ast.Subscript) and isinstance(sub.ctx, ast.Store) and "parameters_state" in norm(sub.value):
                has = True
                break
        if not has:
            continue
        cfg = ctx.facts.cfg(f)
        aliases = ctx.facts.local_aliases(f)
        per_field: Dict[str, List[Tuple[Node, ast.AST]]] = {}
        for n in cfg.live_nodes():
            if n.copy_of is not None:
                continue
            for t in stores_in(n):
                # nested functions are analysed as their own Func
                fld = field_of_target(ctx, f, t, aliases, local_fields)
                if fld is None:
                    continue
                a = n.ast
                if isinstance(a, ast.Assign):
                    val = a.value
                    if isinstance(a.targets[0], ast.Tuple) and isinstance(val, ast.Tuple):
                        for tt, vv in zip(a.targets[0].elts, val.elts):
                            if tt is t:
                                val = vv
                elif isinstance(a, ast.AugAssign):
                    val = a.value
                else:
                    val = None
                per_field.setdefault(fld, []).append((n, val))
        for fld, writes in per_field.items():
            scopes.append(Scope(ctx, f, fld, cfg, writes, aliases))
    return scopes


def is_flush_call(call: ast.Call) -> bool:
    return isinstance(call.func, ast.Attribute) and call.func.attr == "_batch_call_watchers" and not call.args and not call.keywords


def run(ctx):
    ctx.rule("R05.x", "context-manager model: _batch_call_watchers, batch_call_watchers, discard_events, _syncing and edit_constant interpreted abstractly with the body of the `with` supplied at the `yield` (62 cases: entry state x body ends normally / raises x nesting x queues replaced in the body x Parameter copies made in the body): flag, queues, syncing set and constant flags are, after the block, what they were before; the flush runs iff outermost, after the restore, also when the body raised", floor=1)
    ctx.rule("R05.y", "Event model: Event.__set__ interpreted abstractly on mode (set-reset / set / reset) x the assignment proper succeeds / is refused / a watcher raises: in set-reset the Event is assigned and then reset whatever happens, in set (held so by update/trigger while it is delivered) it is assigned and NOT reset, in reset it is only reset", floor=1)
    ctx.rule("R05.z", "dependency re-wiring survives a failing method: in the wrappers that call a depends(watch=True) method (_sync_caller, _async_caller) the re-wiring callback (which moves the watchers to a newly attached sub-object) runs before the method, or on every way out of it, so a method that raises does not leave the watchers on the detached object", floor=2)
    ctx.rule("R05.w", "class-based context managers restore on every path: every attribute that __enter__ assigns is assigned again on every path through __exit__, which is what runs when the block raised", floor=1)
    ctx.rule("R05.a", "every may-raise node that can follow a TEMP-write of a transient dispatcher field "
                      "(without an intervening ORIG-write) lies in a try whose finally / re-raising catch-all "
                      "handler restores the field", floor=8)
    ctx.rule("R05.b", "in a function that saves the field, the last write on every path to every exit "
                      "(normal or exceptional) is a write of the saved value", floor=5)
    ctx.rule("R05.c", "in a flushing scope the `not <saved flag>`-guarded flush is passed on every exit after the "
                      "first TEMP-write of the batching flag (changes already applied are announced no later than the raise)", floor=3)
    ctx.rule("R05.d", "every flush call of a flushing scope is dominated by the restore of the batching flag", floor=3)
    ctx.rule("R05.e", "when a field is set temporarily for every element of a collection and restored in a loop over the same collection, every iteration of the restoring loop reaches the restore", floor=1)
    ctx.rule("R05.i", "in every @contextmanager, each write to object state (attribute/subscript store) made after the yield on the normal way out is also made on the way out of a failing body", floor=5)
    ctx.rule("R05.g", "a self-resetting Event is reset even when a watcher raises during the assignment: in Event.__set__ the reset is passed on the exceptional exit of super().__set__", floor=1)
    ctx.rule("R05.h", "a failing flush leaves no events behind: every exceptional exit of the flush passes a reset of both queues", floor=1)
    ctx.rule("R05.p", "no state survives a raising function in the callbacks depends builds: a closure variable marked before the user's function is called is cleared in a finally, not by a "
                      "plain statement after the call", floor=1)
    ctx.rule("R05.o", "everything besides notifying comes before the first watcher runs, also in the reference resolver: in Resolver._resolve_value no `_update_refs` call is reachable after "
                      "`self.value = ...` (whose watchers may raise)", floor=1)
    ctx.rule("R05.v", "setter model, raising watcher: Parameter.__set__ interpreted with two watchers, no batch open, the first watcher raising: the exception leaves the setter and no watcher is "
                      "handed to a queue on the way out without a flush (nothing stays queued for a later, unrelated assignment)", floor=1)
    ctx.rule("R05.r", "rx cache model (shared with R09.i): an exception escaping an expression's evaluation inside a watcher leaves the node dirty with the error stored; every later "
                      "invalidation (a valid assignment to an operand) clears that error, so the next evaluation recomputes instead of re-raising the stale exception -- the object dispatches "
                      "later assignments as a fresh one would", floor=1)
    ctx.rule("R05.n", "namespace model (shared with R13.h), with class-level sets that are REFUSED after a watcher read the namespaces: after a failed class-level assignment every `.param` "
                      "lookup still names the Parameter that governs attribute access -- edit_constant, update and trigger switch flags and Event modes through that lookup, so a stale one "
                      "makes them act on the wrong object from then on", floor=1)
    ctx.rule("R05.k", "constructor model: Parameters._setup_params interpreted abstractly (keywords x reference modes): no link is installed (no watcher put on a source object) while keywords "
                      "are still being applied -- references are only collected, and linked after every keyword has been accepted -- so a rejected keyword leaves nothing behind on other objects", floor=1)
    ctx.rule("R05.s", "setter model: Parameter.__set__ interpreted abstractly on every combination (576) of route x constant/readonly x validation outcome x identity x reference mode x watchers x "
                      "batching: everything an assignment does besides notifying (store, link install/drop, post_setter, dependency rebinding) precedes the first watcher, so a watcher that "
                      "raises cannot leave the assignment half applied", floor=1)
    ctx.rule("R05.m", "update model: Parameters._update interpreted abstractly (entry batching flag x key orders incl. an Event key x a rejected or unknown key at every position x a value identical to the current one, 60 cases): flag restored, flush exactly once iff outermost and after the restore, keys applied in order up to the failing one, Event mode and reset, complete previous-values mapping", floor=1)
    ctx.rule("R05.t", "trigger model: Parameters.trigger interpreted abstractly (instance/class x names incl. an Event and an unknown name x an event and a watcher queued before x the update dispatches / queues / raises, 96 cases): update runs once, with the trigger flag raised and the parked queues empty, on the current values; on exit the flag is lowered, earlier queue entries survive, no watcher is queued twice; the write-back is inside a _syncing scope", floor=1)
    ctx.not_decided += ["that later dispatch equals that of a fresh object (behavioural equivalence)",
                        "loop-carried partial restores inside a finally (finally blocks are summarised as atomic)"]
    ctx.assumptions += [
        "within one function all access paths ending in the same tracked field denote one location (DESIGN §2.4)",
        "frozen exclusions: as_uninitialized, Parameterized.__setstate__ (`initialized` toggled on an object that is discarded when the call raises); Time.__call__ (`constant` toggle, not an operation C05 names)",
    ]
    scopes = find_scopes(ctx)
    temp_scopes = [s for s in scopes if s.is_temp_scope]
    ctx.extra["scopes"] = [
        {"function": s.f.qualname, "field": s.fld, "saves": sorted(s.saves), "orig_value": s.orig_desc,
         "orig_writes": [w.lineno for w in s.orig], "temp_writes": [w.lineno for w in s.temp],
         "temporary_scope": s.is_temp_scope} for s in scopes]
    _extra_rules(ctx, scopes)
    _event_and_flush_rules(ctx)
    for s in temp_scopes:
        f, cfg, fld = s.f, s.cfg, s.fld
        orig_ids = {w.id for w in s.orig}
        write_ids = {w.id for w, _ in s.writes}
        # ---- R05.a
        for wt in s.temp:
            bad = []
            reach = cfg.reachable_from([wt], stop=lambda n: n.id in orig_ids, labels={"n", "t", "f"})
            for r in sorted(reach, key=lambda n: n.lineno):
                if not r.may_raise or r.id in orig_ids:
                    continue
                if s.protected(r) is None:
                    bad.append(r)
            if not bad:
                ctx.ok("R05.a", f, wt, "field %s: TEMP-write; restore value = %s; %d may-raise node(s) follow, all covered" % (
                    fld, s.orig_desc, sum(1 for r in reach if r.may_raise)))
            seen_txt = set()
            for r in bad:
                if r.text() in seen_txt:
                    continue
                seen_txt.add(r.text())
                p = cfg.path(wt, r) or [wt, r]
                ctx.fail("R05.a", f, r,
                         "after the temporary write `%s` (L%d) of %s, `%s` may raise and no enclosing finally/handler restores %s: "
                         "the exception leaves the field at its temporary value" % (wt.text(), wt.lineno, fld, r.text(), s.orig_desc),
                         witness=cfg.witness(p) + ["-> exceptional exit"],
                         key="%s::%s::%s" % (f.qualname, fld, r.text()))
        # ---- R05.b
        if s.saves:
            for wt in s.temp:
                ends = [cfg.exit, cfg.excexit]
                # do not leave wt through its own exceptional edge (the store did not happen)
                seen = _reach_after(cfg, wt, write_ids)
                bad_end = [e for e in ends if e.id in seen]
                if not bad_end:
                    ctx.ok("R05.b", f, wt, "field %s: every path from this temporary write to an exit passes a write of %s" % (fld, s.orig_desc))
                else:
                    e = bad_end[0]
                    p = cfg.path(wt, e, avoid=lambda n: n.id in write_ids) or [wt, e]
                    ctx.fail("R05.b", f, wt,
                             "a path from the write `%s` reaches the %s exit without restoring %s to %s "
                             "(the function saved the value, so a constant here contradicts its own save)" % (
                                 wt.text(), "exceptional" if e is cfg.excexit else "normal", fld, s.orig_desc),
                             witness=cfg.witness(p),
                             key="%s::%s::%s" % (f.qualname, fld, wt.text()))
        # ---- R05.c / R05.d : flushing scopes
        if fld == "_BATCH_WATCH":
            flush_nodes = [n for n in cfg.live_nodes() if any(is_flush_call(c) for c in calls_in(n))]
            if not flush_nodes and f.qualname in FLUSHING_SCOPES:
                ctx.fail("R05.c", f, f.node, "%s raises the batching flag but never flushes: changes applied inside stay queued until an unrelated assignment" % f.qualname,
                         key="%s::no-flush" % f.qualname)
            if flush_nodes and s.saves:
                guards = set()
                for fn_ in flush_nodes:
                    for d in cfg.dominating(fn_):
                        if d.kind == "br":
                            facts = decompose(d.ast, d.polarity)
                            if any(isinstance(e, ast.Name) and e.id in s.saves and t is False for e, t in facts):
                                for _, p in d.pred:
                                    guards.add(p.id)
                first_temp = min(s.temp, key=lambda n: n.lineno)
                seen = _reach_after(cfg, first_temp, guards)
                bad_end = [e for e in (cfg.exit, cfg.excexit) if e.id in seen]
                if not bad_end:
                    ctx.ok("R05.c", f, first_temp, "every exit after the first TEMP-write passes a flush guarded by `not %s`" % "/".join(sorted(s.saves)))
                else:
                    e = bad_end[0]
                    p = cfg.path(first_temp, e, avoid=lambda n: n.id in guards) or [first_temp, e]
                    ctx.fail("R05.c", f, first_temp,
                             "an exit (%s) is reachable after the batching flag was raised without passing the outermost-flush: "
                             "changes already applied stay queued until some later unrelated assignment" % (
                                 "exceptional" if e is cfg.excexit else "normal"),
                             witness=cfg.witness(p), key="%s::flush-on-exit" % f.qualname)
                for fn_ in flush_nodes:
                    if any(cfg.dominates(w, fn_) for w in s.orig):
                        ctx.ok("R05.d", f, fn_, "flush dominated by the restore of the flag")
                    else:
                        ctx.fail("R05.d", f, fn_, "the flush runs while the batching flag is still raised (a raising flush leaves it set)",
                                 key="%s::flush-before-restore::%s" % (f.qualname, fn_.text()))
    _scope_floor(ctx, temp_scopes)

    for q_ in ("param.parameterized._sync_caller", "param.parameterized._async_caller"):
        wf = ctx.repo.func(q_)
        wc = ctx.facts.cfg(wf)
        cbs = [n for n in wc.live_nodes() for c in calls_in(n) if isinstance(c.func, ast.Name) and c.func.id == "callback"]
        fns = [n for n in wc.live_nodes() for c in calls_in(n) if isinstance(c.func, ast.Name) and c.func.id == "function"]
        if not cbs or not fns:
            raise AnalysisError("%s no longer calls both `callback` and `function`" % q_)
        badz = None
        for fn_n in fns:
            # every exit reachable from the method call (normal or exceptional) must have passed the re-wiring, before or after
            before = any(any(r is fn_n for r in wc.reachable_from([cb])) for cb in cbs)
            if before:
                continue
            seen, stack = set(), [t for l, t in fn_n.succ]
            while stack and badz is None:
                n = stack.pop()
                if n.id in seen:
                    continue
                seen.add(n.id)
                if any(n is cb for cb in cbs) or (n.kind == "br" and norm(n.ast) == "callback" and n.polarity is False):
                    continue          # re-wired, or there is nothing to re-wire
                if n is wc.exit or n is wc.excexit:
                    badz = (fn_n, n is wc.excexit)
                    break
                stack.extend(t for l, t in n.succ)
        if badz:
            ctx.fail("R05.z", wf, badz[0], "%s calls the watched method before the re-wiring callback and the callback is skipped on the %s way out: when the method raises while a sub-object "
                                           "is being replaced, the dependency watchers stay on the detached object and the new one is never watched" % (wf.name, "exceptional" if badz[1] else "normal"),
                     key=q_ + "::rewiring-skipped", input="@depends('mid.leaf.x', watch=True) method raises during top.mid.leaf = new -> later new.x changes are not dispatched")
        else:
            ctx.ok("R05.z", wf, fns[0], "the re-wiring callback runs before the method is called")

    from checks.shared import class_cm_restores
    class_cm_restores(ctx, "R05.w")
    from checks.shared import event_model
    event_model(ctx, "R05.y", "C05")
    from checks import setter_model
    setter_model.report(ctx, "C05", "R05.s")
    setter_model.watcher_raises_model(ctx, "R05.v")
    resolver_repoints_before_publishing(ctx, "R05.o")
    closure_guards_are_released(ctx, "R05.p")
    from checks import ctor_model
    ctor_model.report(ctx, "C05", "R05.k")
    from checks import namespace_model
    namespace_model.report(ctx, "R05.n")
    from checks import rx_model
    rx_model.report(ctx, "R05.r")
    from checks import update_model
    update_model.report(ctx, "C05", "R05.m")
    from checks import trigger_model
    trigger_model.report(ctx, "C05", "R05.t")
    from checks import cm_model
    cm_model.report(ctx, "C05", "R05.x")


def _scope_floor(ctx, temp_scopes):
    # vacuity floor on the number of temporary scopes; checked last so that a scope
    # that disappeared *because of* a reported violation does not mask the report
    if len(temp_scopes) < 9 and not ctx.violations:
        raise AnalysisError("only %d temporary scopes found (floor 9 confirmed on the pinned tree): %s" % (
            len(temp_scopes), ", ".join("%s/%s" % (s.f.name, s.fld) for s in temp_scopes)))


def _reach_after(cfg: CFG, start: Node, stops: Set[int]) -> Set[int]:
    """ids reachable from ``start`` (leaving it by non-exceptional edges only),
    not passing through ``stops``."""
    seen: Set[int] = set()
    stack = [t for l, t in start.succ if l != "e"]
    while stack:
        n = stack.pop()
        if n.id in seen:
            continue
        seen.add(n.id)
        if n.id in stops:
            continue
        for l, t in n.succ:
            # a write node left through its own exceptional edge did not store
            stack.append(t)
    return seen


def _event_and_flush_rules(ctx):
    ev = ctx.repo.method("param.parameters.Event", "__set__")
    ec = ctx.facts.cfg(ev)
    sup = [n for n in ec.live_nodes() for c in calls_in(n) if isinstance(c.func, ast.Attribute) and c.func.attr == "__set__"
           and isinstance(c.func.value, ast.Call) and norm(c.func.value.func) == "super"]
    resets = {n.id for n in ec.live_nodes() for c in calls_in(n) if norm(c.func) == "self._reset_event"}
    if not sup or not resets:
        raise AnalysisError("Event.__set__ anchors (super().__set__ / _reset_event) not found")
    for sn in sup:
        # branches through which the NORMAL continuation legitimately skips the reset (mode 'set')
        def walk(starts, stop_extra=()):
            seen, stack = {}, list(starts)
            while stack:
                n = stack.pop()
                if n.id in seen:
                    continue
                seen[n.id] = n
                if n.id in resets or (n.kind == "br" and (norm(n.ast), n.polarity) in stop_extra):
                    continue
                stack.extend(t for l, t in n.succ if l != "e" or n is not sn)
            return seen
        normal = walk([t for l, t in sn.succ if l != "e"])
        skip_brs = {(norm(n.ast), n.polarity) for n in normal.values() if n.kind == "br"} if ec.exit.id in normal else set()
        exc = walk([t for l, t in sn.succ if l == "e"], stop_extra=skip_brs)
        if ec.excexit.id in exc:
            ctx.fail("R05.g", ev, sn, "when a watcher raises inside super().__set__ the Event is not reset: it stays True, the next `obj.e = True` is filtered as unchanged and never fires again",
                     key=ev.qualname + "::no-reset-on-failure", input="watcher on an Event raises; afterwards p.e is True and p.e = True triggers nothing")
        else:
            ctx.ok("R05.g", ev, sn, "the reset is passed on the exceptional exit under the same mode test as on the normal one")
    fl = ctx.repo.func("param.parameterized.Parameters._batch_call_watchers")
    fc = ctx.facts.cfg(fl)
    execs = [n for n in fc.live_nodes() for c in calls_in(n) if isinstance(c.func, ast.Attribute) and c.func.attr == "_execute_watcher"]
    if not execs:
        raise AnalysisError("the flush no longer calls _execute_watcher")

    def clears(n, fld):
        return any(ctx.facts.field_of(t, {}) == fld for t in stores_in(n)) and isinstance(n.ast, ast.Assign) and isinstance(n.ast.value, ast.List) and not n.ast.value.elts
    # immediate dispatch (no batch open): a queued=True watcher runs with queueing enabled; when it raises, the
    # guarded flush after the dispatch loop is skipped
    for q in ("param.parameterized.Parameter.__set__", "param.parameterized.Parameter._trigger_event"):
        df = ctx.repo.func(q)
        dc = ctx.facts.cfg(df)
        sites = [n for n in dc.live_nodes() for c in calls_in(n) if isinstance(c.func, ast.Attribute) and c.func.attr == "_call_watcher"]
        if not sites:
            raise AnalysisError("%s no longer dispatches through _call_watcher" % q)
        for sn in sites:
            seen, stack, leaks = set(), [t for l, t in sn.succ if l == "e"], False
            while stack:
                n = stack.pop()
                if n.id in seen:
                    continue
                seen.add(n.id)
                if any(isinstance(c.func, ast.Attribute) and c.func.attr == "_batch_call_watchers" for c in calls_in(n)) or clears(n, "_events"):
                    continue
                if n is dc.excexit:
                    leaks = True
                    break
                stack.extend(t for l, t in n.succ)
            if leaks:
                ctx.fail("R05.h", df, sn, "immediate dispatch: when a queued=True watcher raises after having assigned other parameters, the events it queued are neither flushed nor dropped "
                                          "(the flush after the dispatch loop is skipped): they are delivered at some later unrelated assignment",
                         key=q + "::leftover-events-on-failure",
                         input="queued watcher on a sets b then raises; p.a = 1 (no batch open) -> the event for b is delivered by the next unrelated assignment")
            else:
                ctx.ok("R05.h", df, sn, "the exceptional exit of the dispatch passes a flush / queue reset")
    for en in execs:
        bad = False
        for fld in ("_events", "_state_watchers"):
            seen, stack = set(), [t for l, t in en.succ if l == "e"]
            while stack:
                n = stack.pop()
                if n.id in seen:
                    continue
                seen.add(n.id)
                if clears(n, fld):
                    continue
                if n is fc.excexit:
                    bad = True
                    break
                stack.extend(t for l, t in n.succ)
        # the exceptional continuation must not put already-dequeued events/watchers back
        seen, stack, requeue = set(), [t for l, t in en.succ if l == "e"], None
        while stack and requeue is None:
            n = stack.pop()
            if n.id in seen:
                continue
            seen.add(n.id)
            for fld in ("_events", "_state_watchers"):
                wr = any(ctx.facts.field_of(t, {}) == fld for t in stores_in(n))
                mut = any(isinstance(c.func, ast.Attribute) and c.func.attr in ("append", "extend", "insert", "__iadd__") and ctx.facts.field_of(c.func.value, {}) == fld for c in calls_in(n))
                if (wr and not clears(n, fld)) or mut:
                    requeue = (n, fld)
            stack.extend(t for l, t in n.succ)
        if requeue is not None:
            ctx.fail("R05.h", fl, requeue[0], "when a watcher raises during the flush, `%s` puts entries back into %s: the object is left outside any batch with a non-empty queue, "
                     "delivered by whatever unrelated assignment comes next" % (requeue[0].text()[:70], requeue[1]),
                     key=fl.qualname + "::requeue-on-failure::" + requeue[1],
                     input="two watchers on different parameters, the first one (by precedence) raises inside batch_call_watchers; a later p.z = 5 also delivers the stale events")
        if bad:
            ctx.fail("R05.h", fl, en, "when a watcher raises during the flush, events queued in the meantime by a queued watcher stay in the queue: they are delivered at some later unrelated assignment",
                     key=fl.qualname + "::leftover-events-on-failure",
                     input="queued watcher on a sets b; a second watcher on a raises; batch{p.a = 1} -> the event for b is delivered at the next unrelated assignment")
        else:
            ctx.ok("R05.h", fl, en, "both queues are emptied on the exceptional exit")


def _extra_rules(ctx, scopes):
    # ---- R05.e
    for s in scopes:
        if not s.is_temp_scope:
            continue
        f, cfg = s.f, s.cfg
        temp_loops = {}
        for wt in s.temp:
            for t, part in wt.lex:
                pass
            for lp in ast.walk(f.node):
                if isinstance(lp, ast.For) and any(sub is wt.ast for sub in ast.walk(lp)):
                    temp_loops[norm(lp.iter)] = lp
        for o in s.orig:
            for lp in ast.walk(f.node):
                if isinstance(lp, ast.For) and any(sub is o.ast for sub in ast.walk(lp)) and norm(lp.iter) in temp_loops and lp is not temp_loops[norm(lp.iter)]:
                    # every normal path through one iteration of lp (copy containing o) reaches an ORIG-write
                    heads = [n for n in cfg.live_nodes() if n.kind == "iter" and n.stmt is lp and cfg.dominates(n, o)]
                    for h in heads:
                        orig_ids = {w.id for w in s.orig}
                        body_first = [t for l, t in h.succ if l == "t"]
                        seen, stack, skipped = set(), list(body_first), False
                        while stack:
                            n = stack.pop()
                            if n.id in seen:
                                continue
                            seen.add(n.id)
                            if n.id in orig_ids:
                                continue
                            if n is h:
                                skipped = True
                                break
                            stack.extend(t for l, t in n.succ if l != "e")
                        if skipped:
                            ctx.fail("R05.e", f, h, "an iteration of the restoring loop `for %s in %s` can finish without restoring %s (%s): the elements it skips keep their temporary value" % (
                                norm(lp.target), norm(lp.iter), s.fld, s.orig_desc), key="%s::%s::partial-restore-loop" % (f.qualname, s.fld),
                                input="p.param.update(b=3, a=<rejected>, e=True) leaves Event e in 'set' mode")
                        else:
                            ctx.ok("R05.e", f, h, "every iteration over %s restores %s" % (norm(lp.iter), s.fld))
    # ---- R05.i  (sibling agreement of the two continuations of a context manager's yield)
    n_cm = 0
    for f in ctx.repo.all_funcs():
        if not f.has_decorator("contextmanager"):
            continue
        cfg = ctx.facts.cfg(f)
        for y in [n for n in cfg.live_nodes() if n.suspend]:
            def state_stores(starts, normal_only):
                seen, stack, out = set(), list(starts), {}
                while stack:
                    n = stack.pop()
                    if n.id in seen:
                        continue
                    seen.add(n.id)
                    if n.kind == "stmt" and isinstance(n.ast, (ast.Assign, ast.AugAssign)):
                        tg = n.ast.targets if isinstance(n.ast, ast.Assign) else [n.ast.target]
                        if any(isinstance(t, (ast.Attribute, ast.Subscript)) for t in tg):
                            out.setdefault(norm(n.ast), n)
                    stack.extend(t for l, t in n.succ if not (normal_only and l == "e"))
                return out
            nrm = state_stores([t for l, t in y.succ if l != "e"], True)
            exc = state_stores([t for l, t in y.succ if l == "e"], False)
            n_cm += 1
            missing = [k for k in nrm if k not in exc]
            if missing:
                ctx.fail("R05.i", f, nrm[missing[0]], "the context manager %s undoes state with `%s` when its body ends normally, but no such write is on the way out when the body raises: "
                         "a failing body leaves that state as the body had it" % (f.name, missing[0][:90]), key="%s::normal-only-restore::%s" % (f.qualname, missing[0][:60]),
                         input="with %s(obj): <something that makes the restore necessary>; raise ...  -> the state written by `%s` is not restored" % (f.name, missing[0][:50]))
            else:
                ctx.ok("R05.i", f, y, "%d state write(s) after the yield, each also present on the exceptional way out" % len(nrm))
    # R05.f (the saved value is written back on every exit after the yield, as a shape of the function) was
    # replaced by the context-manager model R05.x, which runs the generator with the body supplied at the yield:
    # the shape rule rejected an equivalent in-place restore (`queue[:] = saved`).


def resolver_repoints_before_publishing(ctx, rule):
    """Resolver._resolve_value (behind `rx.resolve(recursive=True)` and the recursive resolution of references): assigning
    `self.value` dispatches to downstream watchers, any of which may raise.  Re-pointing the resolver's own source
    watchers (`self._update_refs(refs)`) must therefore not come AFTER that assignment on any path: an exception would
    leave the resolver watching the dropped reference and not the new one."""
    f = ctx.repo.func("param.reactive.Resolver._resolve_value")
    cfg = ctx.facts.cfg(f)
    selfn = f.params[0]
    pubs = [n for n in cfg.live_nodes() for t in stores_in(n) if isinstance(t, ast.Attribute) and t.attr == "value" and isinstance(t.value, ast.Name) and t.value.id == selfn]
    ctx.require(pubs, "Resolver._resolve_value no longer assigns self.value")
    after = cfg.reachable_from(pubs, labels={"n", "t", "f"})
    late = [n for n in after if n.kind != "br" and n.ast is not None and any(
        isinstance(c, ast.Call) and isinstance(c.func, ast.Attribute) and c.func.attr == "_update_refs" for c in ast.walk(n.ast))]
    if late:
        ctx.fail(rule, f, late[0], "Resolver._resolve_value re-points its source watchers (`%s`) AFTER publishing the value: `self.value = ...` runs the downstream watchers, and when one of them "
                                   "raises the resolver keeps watching the dropped reference and never watches the new one -- later assignments to the new source are not dispatched" % norm(late[0].ast)[:50],
                 key=f.qualname + "::repoint-after-publish", input="a recursive resolve over a chain of two references; the inner link is re-pointed while a downstream .rx.watch callback raises")
    else:
        ctx.ok(rule, f, pubs[0], "the resolver's own watchers are re-pointed before the value is published (no _update_refs call is reachable after `self.value = ...`)")


_GUARD_EXAMPLE = '''
def cb(*events):
    if active:
        return
    active.append(events)
    result = func(*args)
    active.pop()
    return result
'''


def _unprotected_guards(fnode):
    """Closure state switched on before a call and switched off after it, outside any try/finally."""
    params = {a.arg for a in fnode.args.args + fnode.args.kwonlyargs} | ({fnode.args.vararg.arg} if fnode.args.vararg else set()) | ({fnode.args.kwarg.arg} if fnode.args.kwarg else set())
    local = {t.id for st in ast.walk(fnode) if isinstance(st, ast.Assign) for t in st.targets if isinstance(t, ast.Name)}
    out = []
    for i, st in enumerate(fnode.body):
        if isinstance(st, ast.Expr) and isinstance(st.value, ast.Call) and isinstance(st.value.func, ast.Attribute) and st.value.func.attr in ("append", "add") \
                and isinstance(st.value.func.value, ast.Name) and st.value.func.value.id not in params | local:
            name = st.value.func.value.id
            rest = fnode.body[i + 1:]
            undo_plain = [s for s in rest if isinstance(s, ast.Expr) and isinstance(s.value, ast.Call) and isinstance(s.value.func, ast.Attribute)
                          and s.value.func.attr in ("pop", "remove", "discard", "clear") and norm(s.value.func.value) == name]
            calls_between = any(isinstance(c, ast.Call) for s in rest[:rest.index(undo_plain[0])] for c in ast.walk(s)) if undo_plain else False
            if undo_plain and calls_between:
                out.append((st, name))
    return out


def closure_guards_are_released(ctx, rule):
    """The callbacks that param.depends builds for functions (the callbacks behind bind(..., watch=True) and .rx.watch) keep
    no state that a raising function leaves switched on: a closure variable marked before the user's function is called
    (`active.append(...)`) is cleared in a `finally`, never by a plain statement after the call -- otherwise one exception
    makes the shared callback return at once for ever after.  (Zero instances on the pinned tree; embedded example.)"""
    ex = ast.parse(_GUARD_EXAMPLE).body[0]
    if len(_unprotected_guards(ex)) != 1:
        raise AnalysisError("%s: the matcher no longer recognises the embedded example of an unprotected guard" % rule)
    f = ctx.repo.func("param.depends.depends")
    nested = [n for n in ast.walk(f.node) if isinstance(n, (ast.FunctionDef, ast.AsyncFunctionDef)) and n is not f.node]
    ctx.require(len(nested) >= 3, "fewer than 3 nested callbacks in param.depends.depends (%d)" % len(nested))
    bad = [(n, g) for n in nested for g in _unprotected_guards(n)]
    if bad:
        n, (st, name) = bad[0]
        ctx.fail(rule, f, st, "the callback `%s` of depends marks the closure variable `%s` before it calls the user's function and clears it by a plain statement afterwards: when the function "
                              "raises the mark stays, and the shared callback returns at once on every later dispatch -- the watcher is never called again" % (n.name, name),
                 key=f.qualname + "::guard-not-released", input="bind(f, p.param.x, watch=True) where f raises once: later assignments to p.x never call f again")
    else:
        ctx.ok(rule, f, f.node, "none of the %d callbacks built by depends keeps a guard that a raising function would leave on (matcher checked on an embedded example)" % len(nested))
