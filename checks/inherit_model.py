"""Inheritance model (C11): ParameterizedMetaclass.__param_inheritance interpreted abstractly.

Hierarchy: the class being created (it declares the Parameter, specifying any
subset of the slots default / bounds / doc / label), its parent (which either
re-declares the Parameter or skips the declaration) and its grandparent (which
declares it).  Ancestors were created earlier, so every slot of their
Parameter objects is filled; only the new Parameter has unspecified
(Undefined) slots.  The new Parameter's type is, or is not, a subtype-compatible
change; the ancestors do or do not have instantiate=True.

Specification (the property):
* every slot the new declaration specifies keeps its value; every slot it
  leaves unspecified takes the value of the NEAREST ancestor that declares the
  Parameter -- independently per slot; a slot no ancestor declares takes the
  type's default (a callable default is called with the Parameter);
* instantiate is True iff the new declaration or any ancestor has it;
* the merged default is validated whenever the Parameter type changed, or the
  new declaration specifies a validated slot (default, bounds) and the merged
  default is not None; then class creation fails (RuntimeError) iff the
  validator rejects.  A None default is not re-validated unless the type
  changed.  (Re-validating a combination an ancestor already holds is allowed.)
* the mutable container taken from an ancestor is copied (no crosstalk).
"""
from __future__ import annotations

import itertools

from engine.absint import Interp, Obj, PyFunc, Unsupported, _Raise
from engine.loader import AnalysisError

P = "param.parameterized."
SLOTS = ["default", "bounds", "doc", "label"]           # validated: default, bounds; not validated: doc, label
ALL_SLOTS = ["name", "owner", "default", "bounds", "doc", "label", "instantiate", "allow_refs"]


def run_case(ctx, f, own, parent_declares, type_change, anc_instantiate, validator_rejects, own_default_none):
    UNDEF = Obj("Undefined")
    tagP = Obj("ParameterType", _all_slots_=list(ALL_SLOTS))
    label_default = PyFunc("label_default", lambda p: ("computed_label_for", id(p)))

    def mk(level, vals, inst):
        o = Obj("Parameter@%s" % level, __kind__="Parameter", name="p", owner=Obj("class_" + level), instantiate=inst, allow_refs=False,
                _non_validated_slots=["name", "owner", "doc", "label", "instantiate", "allow_refs"],
                _slot_defaults={"name": None, "owner": None, "default": Obj("type_default"), "bounds": None, "doc": None, "label": label_default,
                                "instantiate": False, "allow_refs": False})
        o.attrs["__type__"] = tagP
        for s in SLOTS:
            o.attrs[s] = vals[s]
        return o
    gp_vals = {s: Obj("%s@grandparent" % s) for s in SLOTS}
    gp_vals["bounds"] = [Obj("lo@grandparent"), Obj("hi@grandparent")]          # a mutable container
    pa_vals = {s: Obj("%s@parent" % s) for s in SLOTS}
    pa_vals["bounds"] = [Obj("lo@parent"), Obj("hi@parent")]
    own_vals = {}
    for s in SLOTS:
        own_vals[s] = (None if (s == "default" and own_default_none == "none") else Obj("%s@new" % s)) if s in own else UNDEF
    if "default" in own and own_default_none == "falsy":
        own_vals["default"].attrs["__bool__"] = False        # 0, 0.0, '', [] ...: falsy but not None
    if "bounds" in own:
        own_vals["bounds"] = [Obj("lo@new"), Obj("hi@new")]
    gp = mk("grandparent", gp_vals, anc_instantiate)
    pa = mk("parent", pa_vals, False)
    new = mk("new", own_vals, False)
    new.attrs["owner"] = None
    cls_gp, cls_pa, cls_new = Obj("Grandparent", __name__="Grandparent"), Obj("Parent", __name__="Parent"), Obj("New", __name__="New")
    cls_gp.attrs["__dict__"] = {"p": gp}
    cls_pa.attrs["__dict__"] = {"p": pa} if parent_declares else {}
    cls_new.attrs["__dict__"] = {"p": new}
    cls_new.attrs["_param__private"] = Obj("class_private", explicit_no_refs=[])
    obj_cls = Obj("object", __name__="object")
    cls_new.attrs["__mro__"] = (cls_new, cls_pa, cls_gp, Obj("Parameterized", __name__="Parameterized"), obj_cls)
    validated = []

    def hook(fn, args, kwargs):
        if fn == "type" and len(args) == 1 and isinstance(args[0], Obj) and "__type__" in args[0].attrs:
            return args[0].attrs["__type__"]
        if fn == "dict.fromkeys" and args:
            return {k: None for k in args[0]}
        if fn == "classlist" and args:
            return [cls_gp, cls_pa, cls_new]
        if fn == "isinstance" and len(args) == 2:
            return isinstance(args[0], Obj) and args[0].attrs.get("__kind__") == "Parameter"
        if fn == "issubclass":
            return not type_change
        if fn == "hasattr" and len(args) == 2:
            return isinstance(args[0], Obj) and args[1] in args[0].attrs
        if fn == "_is_mutable_container":
            return isinstance(args[0], (list, dict, set))
        if fn in ("copy.copy",):
            return list(args[0]) if isinstance(args[0], list) else args[0]
        if fn.endswith("._validate") and len(args) == 1:
            validated.append(args[0])
            if validator_rejects:
                raise _Raise("ValueError")
            return None
        if fn.endswith("._update_state"):
            return None
        if fn == "_validate_error_prefix":
            return "Parameter p"
        if fn.endswith(".join"):
            return "parents"
        return NotImplemented
    it = Interp(ctx.hier, dyn=P + "ParameterizedMetaclass", inline=lambda m: False, call_hook=hook, globals={"Undefined": UNDEF, "Parameter": "<Parameter>"})
    outs = it.run_all(f, {f.params[0]: cls_new, f.params[1]: "p", f.params[2]: new})
    if len(outs) != 1 or outs[0].imprecise:
        raise AnalysisError("inheritance model: __param_inheritance is not interpretable precisely (%s)" % (outs[0].notes[:2] if outs else "no outcome"))
    return outs[0], new, pa, gp, own_vals, validated, UNDEF, cls_new


def model(ctx):
    f = ctx.repo.func(P + "ParameterizedMetaclass.__param_inheritance")
    problems, n = [], 0
    subsets = [set(c) for r in range(len(SLOTS) + 1) for c in itertools.combinations(SLOTS, r)]
    for own, parent_declares, type_change, anc_inst, rejects, own_none in itertools.product(subsets, [True, False], [False, True], [False, True], [False, True], ["value", "none", "falsy"]):
        if own_none != "value" and "default" not in own:
            continue
        try:
            o, new, pa, gp, own_vals, validated, UNDEF, cls_new = run_case(ctx, f, own, parent_declares, type_change, anc_inst, rejects, own_none)
        except Unsupported as e:
            raise AnalysisError("inheritance model: absint cannot interpret __param_inheritance: %s" % e)
        n += 1
        near = pa if parent_declares else gp
        desc = "new class declares p(%s%s) below a parent that %s and a grandparent that declares it%s%s" % (
            ", ".join(sorted(own)) or "nothing", " with default=None" if own_none == "none" else " with a falsy default (0, '', [])" if own_none == "falsy" else "", "re-declares p" if parent_declares else "does not declare p",
            ", Parameter type changed" if type_change else "", ", an ancestor has instantiate=True" if anc_inst else "")
        # ---- validation
        merged_default = own_vals["default"] if "default" in own else near.attrs["default"]
        overridden = any(s in own for s in ("default", "bounds"))            # a validated slot specified anew (its value differs from the inherited object)
        want_validate = type_change or (overridden and merged_default is not None)
        if want_validate and not validated:
            problems.append("%s: the merged default is NOT validated: a class can be created whose default contradicts its inherited constraints or its new type" % desc)
            continue
        if validated and not want_validate:
            # re-validating a combination that an ancestor already holds (the parent overrides the grandparent, the new class adds
            # nothing) cannot reject anything in reality: allowed, and the abstract validator's verdict is meaningless here
            if merged_default is None and not type_change:
                problems.append("%s: a merged default of None is re-validated although the Parameter type did not change" % desc)
            continue
        if validated and validated[0] is not merged_default:
            problems.append("%s: what is validated (%r) is not the merged default (%r)" % (desc, validated[0], merged_default))
        want_fail = want_validate and rejects
        if want_fail != (o.kind == "raise"):
            problems.append("%s: class creation %s although the validator %s the merged default" % (desc, "fails" if o.kind == "raise" else "succeeds", "rejects" if rejects else "accepts"))
        if o.kind == "raise":
            continue
        # ---- slots
        for s in SLOTS:
            got = new.attrs.get(s)
            want = own_vals[s] if s in own else near.attrs[s]
            if s == "bounds":
                same = isinstance(got, list) and len(got) == len(want) and all(a is b for a, b in zip(got, want))
                if not same:
                    problems.append("%s: bounds ends up %r, specification: %s" % (desc, got, "the declared one" if s in own else "those of the nearest ancestor that declares p (%s)" % near.name))
                elif s not in own and got is want:
                    problems.append("%s: the inherited bounds container is the ancestor's own list (not a copy): changing it on one class changes the other" % desc)
            elif got is not want:
                problems.append("%s: `%s` ends up %r, specification: %s" % (desc, s, got, "the value declared on the new class" if s in own else "the value of the nearest ancestor that declares p (%s)" % near.name))
        if new.attrs.get("owner") is not cls_new:
            problems.append("%s: the new Parameter is not owned by the new class" % desc)
        if new.attrs.get("instantiate") is not bool(anc_inst):
            problems.append("%s: instantiate ends up %r (an ancestor %s it)" % (desc, new.attrs.get("instantiate"), "has" if anc_inst else "does not have"))
    return n, problems


def report(ctx, rule):
    n, problems = model(ctx)
    f = ctx.repo.func(P + "ParameterizedMetaclass.__param_inheritance")
    ctx.abstract_cases += n
    if not problems:
        ctx.ok(rule, f, f.node, "inheritance model, %d abstract cases (subsets of default/bounds/doc/label declared anew x parent re-declares or skips x type change x inherited instantiate x "
                                "validator verdict x default None): nearest declaring ancestor wins per slot, instantiate inherited, merged default validated exactly when specified" % n)
    else:
        ctx.fail(rule, f, f.node, "inheritance model: %s (%d disagreeing case(s))" % (problems[0], len(problems)), key=f.qualname + "::inheritance-model")
