"""Namespace model (C13): the class-level `.param` lookup under histories of
class-level operations, interpreted abstractly.

Hierarchy: A <- B <- C.  A declares the parameters p and q, B overrides q with
its own Parameter, C declares nothing.  Operations (on any of the three
classes): read the namespace (which fills the cache), assign a plain value to p
or q at class level, assign a new Parameter object under the name p, add a new
parameter r with add_parameter.

Interpreted code: ParameterizedMetaclass.__setattr__ and _clear_params_cache,
Parameters.add_parameter and the Parameters._cls_parameters property.  The
inheritance of slot values (__param_inheritance / _initialize_parameter), the
Parameter's own __set__ (modelled as "store the default") and copy.copy are
abstract.

Specification after every history, for every class X and every name:
* X.param's lookup holds exactly the names that attribute lookup finds on X,
  and for each the very Parameter object attribute lookup finds (the first one
  in X's MRO, most derived class first);
* after `X.name = value` that Parameter's default is the value, the Parameter
  found on every ancestor / sibling is the same object with the same default
  as before (copy-on-write), and classes below X see the new value unless a
  class in between has its own Parameter.
"""
from __future__ import annotations

import itertools

from engine.absint import Interp, Obj, PyFunc, Unsupported, _Raise as _RaiseSignal
from engine.loader import AnalysisError

P = "param.parameterized."
META = P + "ParameterizedMetaclass"
PARAMETERS = P + "Parameters"


LINEAR = {"order": ["A", "B", "C"], "mro": {"A": ["A"], "B": ["B", "A"], "C": ["C", "B", "A"]},
          "bases": {"A": [], "B": ["A"], "C": ["B"]}, "declare": [("A", "p"), ("A", "q"), ("B", "q")]}
# a diamond: D(B, E); p is declared on A and overridden on E only, so attribute lookup on D finds E's p (MRO D, B, E, A)
DIAMOND = {"order": ["A", "B", "E", "D"], "mro": {"A": ["A"], "B": ["B", "A"], "E": ["E", "A"], "D": ["D", "B", "E", "A"]},
           "bases": {"A": [], "B": ["A"], "E": ["A"], "D": ["B", "E"]}, "declare": [("A", "p"), ("A", "q"), ("E", "p")]}


class World:
    def __init__(self, ctx, shape=None):
        self.ctx = ctx
        self.shape = shape or LINEAR
        self.classes = {}
        self.order = list(self.shape["order"])
        self.n_param = 0
        for nme in self.order:
            priv = Obj("private_of_" + nme, params={})
            cls = Obj("class_" + nme, __cls__=META, __name__=nme, _param__private=priv)
            cls.attrs["__dict__"] = {"_param__private": priv}
            cls.attrs["param"] = Obj("param_of_" + nme, __cls__=PARAMETERS, cls=cls, self=None)
            self.classes[nme] = cls
        obj = Obj("class_object", __name__="object")
        obj.attrs["__dict__"] = {}
        obj.attrs["__mro__"] = (obj,)
        for i, nme in enumerate(self.order):
            cls = self.classes[nme]
            cls.attrs["__mro__"] = tuple(self.classes[m] for m in self.shape["mro"][nme]) + (obj,)
            cls.attrs["__bases__"] = tuple(self.classes[m] for m in self.shape["bases"][nme]) or (obj,)
        for cn, pn in self.shape["declare"]:
            self.declare(cn, pn, "%s@%s" % (pn, cn))

    def new_param(self, label, default=None):
        self.n_param += 1
        return Obj("Parameter<%s>" % label, __kind__="Parameter", default=default if default is not None else Obj("default_of_" + label), owner=None, name=None)

    def declare(self, cname, name, label):
        p = self.new_param(label)
        p.attrs["owner"], p.attrs["name"] = self.classes[cname], name
        self.classes[cname].attrs["__dict__"][name] = p

    def mro(self, cls):               # most derived first
        if cls.attrs["__name__"] not in self.order:
            return [cls]              # `object`
        return [self.classes[n] for n in self.shape["mro"][cls.attrs["__name__"]]]

    def lookup(self, cls, name):
        for c in self.mro(cls):
            v = c.attrs["__dict__"].get(name)
            if isinstance(v, Obj) and v.attrs.get("__kind__") == "Parameter":
                return v
        return None

    def names(self, cls):
        out = []
        for c in self.mro(cls):
            for k, v in c.attrs["__dict__"].items():
                if isinstance(v, Obj) and v.attrs.get("__kind__") == "Parameter" and k not in out:
                    out.append(k)
        return out

    def hook(self, fn, args, kwargs):
        it = self.it
        if fn == "classlist" and args:
            return list(reversed(self.mro(args[0])))
        if fn == "descendents" and args:
            if args[0].attrs["__name__"] not in self.order:
                return [args[0]]
            me = args[0].attrs["__name__"]
            return [self.classes[n] for n in self.order if me in self.shape["mro"][n]]
        if fn == "type.__setattr__" and len(args) == 3:
            args[0].attrs["__dict__"][args[1]] = args[2]
            return None
        if fn == "copy.copy" and args and isinstance(args[0], Obj):
            c = Obj("copy of " + args[0].name, **dict(args[0].attrs))
            return c
        if fn == "isinstance" and len(args) == 2:
            if isinstance(args[1], Obj) and args[1].name == "ParameterizedMetaclass":
                return isinstance(args[0], Obj) and args[0].attrs.get("__cls__") == META
            return isinstance(args[0], Obj) and args[0].attrs.get("__kind__") == "Parameter"
        if fn == "type.__delattr__" and len(args) == 2:
            args[0].attrs["__dict__"].pop(args[1], None)
            return None
        if fn.endswith(".__set__") and len(args) == 2:
            recv = getattr(it, "current_receiver", None)
            if not (isinstance(recv, Obj) and recv.attrs.get("__kind__") == "Parameter"):
                raise Unsupported("__set__ on %r" % (recv,))
            if getattr(self, "rejecting", None):
                # a class-level watcher reads the namespaces while the set is in progress, then the assignment fails
                saved_it = self.it
                for cn in self.rejecting:
                    self.read(cn)
                self.it = saved_it
                raise _RaiseSignal("ValueError")
            recv.attrs["default"] = args[1]
            self.sets.append(recv)
            return None
        if fn in ("mcs.__param_inheritance", "ParameterizedMetaclass._initialize_parameter", "mcs._initialize_parameter"):
            # slot inheritance of the new Parameter is abstract; _initialize_parameter also tells the Parameter its name (_set_names),
            # __param_inheritance alone does not
            if fn.endswith("_initialize_parameter") and len(args) >= 2 and isinstance(args[-1], Obj) and isinstance(args[-2], str):
                args[-1].attrs["name"] = args[-2]
            return None
        if fn.endswith("._set_names") and len(args) == 1 and isinstance(args[0], str):
            recv = getattr(it, "current_receiver", None)
            if isinstance(recv, Obj) and recv.attrs.get("__kind__") == "Parameter":
                recv.attrs["name"] = args[0]
                return None
        return NotImplemented

    def call(self, qual_cls, method, self_obj, args):
        f = self.ctx.hier.resolve(qual_cls, method)
        if f is None:
            raise AnalysisError("namespace model: %s.%s not found" % (qual_cls, method))
        hook = self.hook
        it = Interp(self.ctx.hier, dyn=qual_cls, inline=lambda m: m not in ("__param_inheritance", "_initialize_parameter"), call_hook=hook,
                    globals={"Parameter": "<Parameter>", "copy": Obj("copy_module"), "ParameterizedMetaclass": Obj("ParameterizedMetaclass")},
                    strict_self_calls=True, max_steps=6000)
        self.it = it
        World.hook.needs_receiver = True
        pos = [x.arg for x in f.node.args.posonlyargs + f.node.args.args]
        env = {pos[0]: self_obj}
        for nme, v in zip(pos[1:], args):
            env[nme] = v
        outs = it.run_all(f, env)
        if len(outs) != 1 or outs[0].imprecise:
            raise AnalysisError("namespace model: %s.%s is not interpretable precisely (%s)" % (qual_cls.rsplit(".", 1)[-1], method, outs[0].notes[:2] if outs else "no outcome"))
        if outs[0].kind != "return":
            if getattr(self, "rejecting", None):
                return None
            raise AnalysisError("namespace model: %s.%s raises %s on a legal operation" % (qual_cls.rsplit(".", 1)[-1], method, getattr(outs[0], "what", "?")))
        return outs[0].value

    # ---- operations
    def read(self, cname):
        cls = self.classes[cname]
        f = self.ctx.hier.resolve(PARAMETERS, "_cls_parameters")
        return self.call(PARAMETERS, "_cls_parameters", cls.attrs["param"], [])

    def set_value(self, cname, name):
        self.sets = []
        v = Obj("value_%d" % self.n_param)
        self.n_param += 1
        self.call(META, "__setattr__", self.classes[cname], [name, v])
        return v

    def set_rejected(self, cname, name):
        """`Cls.name = <value>` that is refused after a class-level watcher has read the namespaces."""
        self.rejecting = [c for c in self.order if cname in self.shape["mro"][c]]
        try:
            self.call(META, "__setattr__", self.classes[cname], [name, Obj("rejected_value")])
        finally:
            self.rejecting = None

    def set_param(self, cname, name):
        p = self.new_param("%s@%s(new)" % (name, cname))
        p.attrs["owner"], p.attrs["name"] = self.classes[cname], None          # a fresh Parameter does not know its name yet
        self.call(META, "__setattr__", self.classes[cname], [name, p])
        return p

    def add_param(self, cname, name):
        p = self.new_param("%s@%s(added)" % (name, cname))
        p.attrs["owner"], p.attrs["name"] = self.classes[cname], None
        self.call(PARAMETERS, "add_parameter", self.classes[cname].attrs["param"], [name, p])
        return p


def ops(shape=None):
    shape = shape or LINEAR
    names = shape["order"]
    out = []
    for c in names:
        out.append(("read", c, None))
    for c in names:
        out.append(("set", c, "p"))
    for c in names[1:]:
        out.append(("set", c, "q"))
    for c in names[1:]:
        out.append(("reject", c, "p"))
    for c in names[:2]:
        out.append(("newparam", c, "p"))
    for c in names[:3]:
        out.append(("add", c, "r"))
    return out


def describe(op):
    k, c, n = op
    return {"read": "%s.param (read)" % c, "set": "%s.%s = value" % (c, n), "newparam": "%s.%s = Parameter()" % (c, n), "add": "%s.param.add_parameter('%s', ...)" % (c, n),
            "reject": "%s.%s = <rejected value> (a class-level watcher reads the namespaces first)" % (c, n)}[k]


def model(ctx, depth, shape=None):
    shape = shape or LINEAR
    n, bad = 0, []
    allops = ops(shape)
    for L in range(1, depth + 1):
        for hist in itertools.product(allops, repeat=L):
            if hist[-1][0] == "read":
                continue        # covered as a prefix of longer histories and by the final reads
            w = World(ctx, shape)
            tr = []
            try:
                for op in hist:
                    kind, c, nme = op
                    tr.append(describe(op))
                    if kind == "read":
                        w.read(c)
                        continue
                    before = {(x, m): (w.lookup(w.classes[x], m), w.lookup(w.classes[x], m).attrs["default"] if w.lookup(w.classes[x], m) else None)
                              for x in w.order for m in ("p", "q", "r")}
                    if kind == "set":
                        v = w.set_value(c, nme)
                        gov = w.lookup(w.classes[c], nme)
                        if gov is None or gov.attrs["default"] is not v:
                            bad.append((list(tr), "the Parameter that attribute lookup finds on %s for `%s` does not hold the assigned value" % (c, nme)))
                            break
                        for x in [y for y in w.order if y != c and c not in w.shape["mro"][y]]:        # classes that do not inherit from c keep object and default
                            for m in ("p", "q", "r"):
                                now = w.lookup(w.classes[x], m)
                                if (now, now.attrs["default"] if now else None) != before[(x, m)] and not (now is before[(x, m)][0] and now is None):
                                    if now is not before[(x, m)][0] or now.attrs["default"] is not before[(x, m)][1]:
                                        bad.append((list(tr), "the class-level set on %s changed what %s.%s gives (%s does not inherit from %s)" % (c, x, m, x, c)))
                        if bad:
                            break
                    elif kind == "reject":
                        w.set_rejected(c, nme)
                    elif kind == "newparam":
                        w.set_param(c, nme)
                    elif kind == "add":
                        w.add_param(c, nme)
                # ---- final agreement of every namespace with attribute lookup
                for x in w.order:
                    got = w.read(x)
                    if not isinstance(got, dict):
                        raise AnalysisError("namespace model: _cls_parameters returns %r" % (got,))
                    want = {m: w.lookup(w.classes[x], m) for m in w.names(w.classes[x])}
                    if set(got) != set(want):
                        bad.append((list(tr), "%s.param lists %s, attribute lookup finds %s" % (x, sorted(got), sorted(want))))
                        break
                    unnamed = [m for m in want if want[m].attrs.get("name") != m]
                    if unnamed:
                        m = unnamed[0]
                        bad.append((list(tr), "the Parameter that governs %s.%s does not know its name (name=%r): instance values are stored and events sent under that name, so "
                                              "watchers of %r never fire and .param.values() / repr fail" % (x, m, want[m].attrs.get("name"), m)))
                        break
                    wrong = [m for m in want if got[m] is not want[m]]
                    if wrong:
                        m = wrong[0]
                        bad.append((list(tr), "%s.param[%r] is %s, but attribute access on %s is governed by %s" % (x, m, got[m].name, x, want[m].name)))
                        break
            except Unsupported as e:
                raise AnalysisError("namespace model: absint cannot interpret the namespace functions: %s" % e)
            n += 1
            if len(bad) >= 3:
                return n, bad
    return n, bad


def report(ctx, rule):
    depth = 3          # 1830 histories, about 2 s; the intermediate-override cases need three steps
    n, bad = model(ctx, depth)
    if not bad:
        n2, bad = model(ctx, 2, DIAMOND)          # multiple inheritance: the lookup order is the MRO, not "bases, then own"
        n += n2
    f = ctx.repo.func(META + ".__setattr__")
    ctx.abstract_cases += n
    if not bad:
        ctx.ok(rule, f, f.node, "namespace model: %d histories (up to %d class-level operations on A <- B <- C, up to 2 on the diamond D(B, E) over A: namespace reads, value sets, Parameter sets, add_parameter): "
                                "every .param lookup is the Parameter attribute access finds; a class-level set reaches exactly the classes it should" % (n, depth))
    else:
        tr, what = bad[0]
        ctx.fail(rule, f, f.node, "namespace model: after [%s]: %s" % ("; ".join(tr), what), key=f.qualname + "::namespace-model", input="; ".join(tr))


def descriptor_lookup_model(ctx, rule):
    """ParameterizedMetaclass.get_param_descriptor -- which Parameter a class-level assignment `D.p = v` (and a constructor
    keyword) is handed to -- interpreted on a diamond D(B, C), B(A), C(A) where A declares p, B does not, C re-declares
    it (read-only / constant / with tighter bounds) and D does not.

    Specification: the Parameter of the NEAREST class in D's MRO (D, B, C, A) that declares p: C's.  A search through
    `__bases__` depth first reaches A through B before C: the class-level set on D copies A's unprotected Parameter."""
    from engine.absint import Interp, Obj, Unsupported
    from engine.loader import AnalysisError
    META = "param.parameterized.ParameterizedMetaclass"
    f = ctx.repo.func(META + ".get_param_descriptor")
    pA, pC = Obj("Parameter_p_of_A", __kind__="Parameter"), Obj("Parameter_p_of_C_readonly", __kind__="Parameter")
    OBJECT = Obj("object", __dict__={}, __bases__=())

    def cls(name, bases, d):
        return Obj(name, __cls__=META, __dict__=dict(d), __bases__=tuple(bases), __is_class__=True)
    A = cls("A", [OBJECT], {"p": pA})
    B = cls("B", [A], {})
    C = cls("C", [A], {"p": pC})
    D = cls("D", [B, C], {})
    mro = {id(A): [A, OBJECT], id(B): [B, A, OBJECT], id(C): [C, A, OBJECT], id(D): [D, B, C, A, OBJECT]}

    def hook(fn, args, kwargs):
        if fn == "classlist" and len(args) == 1 and id(args[0]) in mro:
            return list(reversed(mro[id(args[0])]))
        if fn in ("inspect.getmro", "type.mro") and len(args) == 1 and id(args[0]) in mro:
            return tuple(mro[id(args[0])])
        if fn.endswith(".mro") and not args:
            recv = getattr(hook.it, "current_receiver", None)
            if isinstance(recv, Obj) and id(recv) in mro:
                return list(mro[id(recv)])
        if fn == "ParameterizedMetaclass.get_param_descriptor" and len(args) == 2:
            return hook.it.invoke(f, [args[1]], {}, args[0])          # the unbound form of the same method
        if fn == "isinstance" and len(args) == 2:
            if norm_name(args[1]) == "ParameterizedMetaclass":
                return isinstance(args[0], Obj) and args[0].attrs.get("__cls__") == META
            return isinstance(args[0], Obj) and args[0].attrs.get("__kind__") == "Parameter"
        return NotImplemented

    def norm_name(x):
        return x if isinstance(x, str) else getattr(x, "name", "")
    hook.needs_receiver = True
    it = Interp(ctx.hier, dyn=META, inline=lambda m: m == "get_param_descriptor", call_hook=hook, globals={"Parameter": "Parameter", "ParameterizedMetaclass": "ParameterizedMetaclass"})
    hook.it = it
    problems = []
    for klass, want_p, want_c in ((D, pC, C), (B, pA, A), (C, pC, C)):
        try:
            outs = it.run_all(f, {f.params[0]: klass, f.params[1]: "p"})
        except Unsupported as e:
            raise AnalysisError("%s: absint cannot interpret get_param_descriptor: %s" % (rule, e))
        if len(outs) != 1 or outs[0].imprecise or outs[0].kind != "return" or not (isinstance(outs[0].value, tuple) and len(outs[0].value) == 2):
            raise AnalysisError("%s: get_param_descriptor is not interpretable precisely (%s)" % (rule, outs[0].notes[:2] if outs else "no outcome"))
        ctx.abstract_cases += 1
        gp, gc = outs[0].value
        if gp is not want_p or gc is not want_c:
            problems.append("for `p` on %s (diamond D(B, C); A declares p, C re-declares it) the lookup finds %s of %s, specification %s of %s -- the nearest declaring class of the MRO: a class-level "
                            "set `D.p = v` is handed to (and copies) A's Parameter, so C's read-only / constant flag and bounds do not apply to D" % (
                                klass.name, getattr(gp, "name", gp), getattr(gc, "name", gc), want_p.name, want_c.name))
    if problems:
        ctx.fail(rule, f, f.node, "descriptor lookup model: %s (%d disagreeing case(s))" % (problems[0], len(problems)), key=f.qualname + "::descriptor-lookup",
                 input="class A: ro = Number(1); class B(A): pass; class C(A): ro = Number(1, readonly=True); class D(B, C): pass; D.ro = 5 -> accepted")
    else:
        ctx.ok(rule, f, f.node, "descriptor lookup model: on a diamond the lookup finds the Parameter of the nearest declaring class of the MRO (3 cases)")
