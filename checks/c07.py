"""C07 -- sub-object dependencies follow the object currently attached.

Decided in part (checks/depends_model.py): the rebinding step and the change
filter.  Parameters._update_deps is interpreted for a replaced sub-object (old
dynamic watchers removed from the detached object, new ones installed on the
attached one), and Parameters._watch_group + _resolve_dynamic_deps + _m_caller +
_sync_caller + _skip_event are interpreted together for every ordered list of
1..3 path dependencies and every event their watchers can receive.
"""
from __future__ import annotations

import ast

from engine.loader import AnalysisError, norm

P = "param.parameterized."


def run(ctx):
    from checks.c03 import queue_rewriters
    ctx.rule("R07.j", "who may take something out of the batch queues (shared with R03.j): _update_deps hands the queue slot of a replaced dynamic watcher to the rebuilt one, so a function outside the frozen table of queue managers that removes a queued watcher (unwatch, say) loses the pending update of a leaf whose parent was replaced in the same batch", floor=2)
    queue_rewriters(ctx, "R07.j")
    from checks import depends_model as _dm
    ctx.rule("R07.m", "_resolve_mcs_deps model (shared with R06.m): every dependency handed in comes back, in order -- two links of one path that carry the same class-level Parameter object (per_instance=False) on two instances included: each is a watch point, and dropping the intermediate one means a replaced sub-object is not followed", floor=1)
    _dm.report_resolve_mcs(ctx, "R07.m")
    ctx.rule("R07.a", "depends model, sub-path filter: for every ordered list of 1..3 dependencies out of sub.x / sub.y / sub.x:bounds / sub.subsub.z / sub.param, every watcher _watch_group installs "
                      "and every event it can receive (the sub-object replaced by one equal in all values / differing in x / y / z / the bounds of x / the attached grandchild; the grandchild "
                      "replaced; a leaf assigned), the callback built by _m_caller is interpreted: the method runs iff a value reached through one of the dependencies sharing that watcher changed, "
                      "and replacing an intermediate object tells the parent to re-resolve", floor=1)
    ctx.rule("R07.b", "depends model, rebinding: Parameters._update_deps(attribute) unwatches every recorded dynamic watcher of the methods that pass through `attribute` exactly once on the object "
                      "it was installed on, installs watchers for the dependencies as they resolve now, records them, and leaves other methods alone", floor=1)
    ctx.rule("R07.s", "setter model: Parameter.__set__ interpreted abstractly on every combination (576) of route x constant/readonly x validation outcome x identity x reference mode x watchers x "
                      "batching: every assignment on an initialized instance re-resolves the dependencies through the assigned parameter, whatever the new value (also None or a plain value), "
                      "after the store and before the watchers", floor=1)
    ctx.rule("R07.d", "depends model, path resolution: Parameters._spec_to_obj interpreted for a.x / a.b.x / a.b.c.x / a.b.c.x:bounds / a.b.param with every link of the path in turn holding None: "
                      "the parameters to watch are exactly one per existing holder along the path (so that attaching an object at ANY level is noticed) plus the leaves iff the whole path is attached", floor=1)
    ctx.rule("R07.u", "dispatch model, snapshot: Parameters._call_watcher serves a watcher that was unregistered after the dispatch snapshot was taken -- when the first dependency watcher of an event re-resolves the parent's dependencies, the old watchers of the other methods are the only carriers of that event", floor=1)
    ctx.rule("R07.z", "comparator model, is_equal (shared with R03.z): two DISTINCT objects of a type the comparator has no rule for are a change -- the rebinding of a path of depth >= 2 is "
                      "driven by the parent's changes-only watcher on the intermediate object; a replacement that merely compares equal must still be announced", floor=1)
    ctx.rule("R07.r", "depends model, method-name recursion (shared with R06.r): _params_depended_on resolves the specs of a named method the way the caller asked for the whole tree -- with "
                      "dynamic=False (class creation) a sub-object path declared through a method stays a dynamic dependency instead of being resolved against the class default object", floor=1)
    ctx.rule("R07.p", "registration model (shared with R03.p): Parameters._register_watcher removes exactly the watcher it is given -- for a sub-object attached to two parents, whose dependency "
                      "watchers differ only in the caller they run, the detaching parent's watcher goes and the other parent's stays", floor=1)
    ctx.rule("R07.k", "depends model, change filter on several events: _skip_event interpreted with two replacement events delivered together whose sub-objects share the relative leaf path "
                      "(left.x / right.x changed or not, dict and list form of `changed`): skipped iff no compared value differs", floor=1)
    ctx.rule("R07.g", "depends model, path helper: _getattrr (which the change filter reads the old and new leaf values with) interpreted on a resolving path with a truthy / FALSY / None leaf "
                      "and on a path broken at either link, with and without a default: the very leaf value; the default for a broken path; AttributeError without one", floor=1)
    ctx.rule("R07.q", "depends model, batch rebind (shared with R06.q): a path root replaced twice inside one batch -- _update_deps -> _call_watcher(rebuilt watcher) -> flush interpreted in sequence with the "
                      "replaced watcher already queued: exactly one watcher runs on behalf of the method at the flush", floor=1)
    ctx.rule("R07.c", "every assignment of a path root re-resolves: Parameter.__set__ calls obj.param._update_deps(name) for an instance, after storing the value and before the watchers run", floor=1)
    ctx.not_decided += ["histories longer than one replacement per level (each rebinding starts from the recorded watchers, which R07.b shows are exactly the installed ones: induction)",
                        "the parsing of a spec string (_parse_dependency_spec, two regular expressions) and method-name dependencies",
                        "paths that stop resolving (None on the path) and async dependent methods (_async_caller)",
                        "that the watcher itself fires once per batch (C05)"]
    ctx.assumptions.append("the grouping key is (object, class, what) as R06.b/R07.b interpret it in _update_deps")
    st = ctx.repo.func(P + "Parameter.__set__")
    calls = [c for c in ast.walk(st.node) if isinstance(c, ast.Call) and isinstance(c.func, ast.Attribute) and c.func.attr == "_update_deps"]
    stores = [n for n in ast.walk(st.node) if isinstance(n, ast.Assign) and any(isinstance(t, ast.Subscript) and norm(t.value).endswith("_param__private.values") for t in n.targets)]
    sends = [c for c in ast.walk(st.node) if isinstance(c, ast.Call) and isinstance(c.func, ast.Attribute) and c.func.attr in ("_call_watcher", "_batch_call_watchers")]
    if not calls:
        ctx.fail("R07.c", st, st.node, "Parameter.__set__ no longer re-resolves the dependencies that pass through the assigned parameter: watchers stay on the detached object", key=st.qualname + "::no-rebind")
    elif not stores or not sends:
        raise AnalysisError("R07.c: the store into _param__private.values or the watcher dispatch was not found in Parameter.__set__")
    else:
        c = calls[0]
        arg_ok = len(c.args) == 1 and norm(c.args[0]) in ("name", "self.name") and not c.keywords
        ordered = max(s.lineno for s in stores) < c.lineno < min(s.lineno for s in sends)
        if arg_ok and ordered:
            ctx.ok("R07.c", st, c, "the setter re-resolves the dependencies through the assigned parameter, after the store and before dispatch")
        elif not arg_ok:
            ctx.fail("R07.c", st, c, "the setter re-resolves with %s instead of the assigned parameter's name" % ast.unparse(c), key=st.qualname + "::rebind-arg")
        else:
            ctx.fail("R07.c", st, c, "the setter re-resolves dependencies %s: the new sub-object is not the one resolved, or the method runs before its watchers moved" % (
                "before the value is stored" if c.lineno < max(s.lineno for s in stores) else "after the watchers ran"), key=st.qualname + "::rebind-order")
    from checks import setter_model
    setter_model.report(ctx, "C07", "R07.s")
    from checks import depends_model
    n2, p2 = depends_model.installation(ctx)
    g = ctx.repo.func(P + "Parameters._update_deps")
    ctx.abstract_cases += n2
    sub_problems = [p for p in p2 if not p.startswith("construction")]
    if sub_problems:
        ctx.fail("R07.b", g, g.node, "depends model (rebinding): %s (%d problem(s))" % (sub_problems[0], len(sub_problems)), key=g.qualname + "::depends-rebinding")
    else:
        ctx.ok("R07.b", g, g.node, "depends model: after replacing a sub-object the old dynamic watchers are removed from the detached object and new ones installed on the attached one")
    depends_model.report_resolution(ctx, "R07.d")
    from checks import dispatch_model
    dispatch_model.snapshot_model(ctx, "R07.u", "C07")
    depends_model.report_filter(ctx, "R07.a")
    depends_model.report_batch_rebind(ctx, "R07.q")
    depends_model.report_getattrr(ctx, "R07.g")
    depends_model.report_skip_event_multi(ctx, "R07.k")
    from checks import register_model
    register_model.report(ctx, "R07.p")
    depends_model.report_method_recursion(ctx, "R07.r")
    from checks.shared import is_equal_model
    is_equal_model(ctx, "R07.z")
