"""C13 -- the `.param` namespace always agrees with attribute access (DESIGN §3/C13)."""
from __future__ import annotations

import ast

from engine.cfg import decompose
from engine.effects import walk_stmts
from engine.facts import calls_in
from engine.loader import AnalysisError, norm

P = "param.parameterized."

CONSUMERS = ["__getitem__", "__iter__", "__contains__", "__dir__", "objects", "_setup_params", "__getattr__"]
PARAMETERS = "param.parameterized.Parameters"


def loops_over_subclasses(loop: ast.For) -> bool:
    for c in ast.walk(loop.iter):
        if isinstance(c, ast.Call):
            n = norm(c.func)
            if n.split(".")[-1] in ("descendents", "__subclasses__", "_descendents"):
                return True
    return False


def resets_params(stmts) -> bool:
    for st in stmts:
        for sub in ast.walk(st):
            if isinstance(sub, ast.Attribute) and sub.attr == "params":
                if isinstance(sub.ctx, ast.Store):
                    return True
            if isinstance(sub, ast.Call) and isinstance(sub.func, ast.Attribute) and sub.func.attr == "clear" \
                    and isinstance(sub.func.value, ast.Attribute) and sub.func.value.attr == "params":
                return True
    return False


def invalidation_summary(ctx, g) -> str:
    """'all' if g resets the cache of a class and every subclass, 'own' if it
    only resets one class' cache, '' otherwise."""
    best = ""
    for st in walk_stmts(g.node):
        if isinstance(st, ast.For) and loops_over_subclasses(st) and resets_params(st.body):
            return "all"
        if not isinstance(st, (ast.For, ast.If, ast.While, ast.With, ast.Try)) and resets_params([st]):
            best = "own"
    return best


def node_invalidation(ctx, f, n) -> str:
    if n.kind == "iter" and loops_over_subclasses(n.stmt) and resets_params(n.stmt.body):
        return "all"
    best = ""
    if n.kind == "stmt" and resets_params([n.ast]) and not isinstance(n.ast, (ast.For, ast.If)):
        best = "own"
    for c in calls_in(n):
        for t in ctx.facts.resolve_call(c, f) or []:
            s = invalidation_summary(ctx, t)
            if s == "all":
                return "all"
            best = best or s
        if isinstance(c.func, ast.Attribute) and ctx.facts.resolve_call(c, f) is None:
            # cls._clear_params_cache(): a metaclass method called on a class object
            for q, g in ctx.repo.funcs.items():
                if g.name == c.func.attr and g.cls is not None and g.cls.name == "ParameterizedMetaclass":
                    s = invalidation_summary(ctx, g)
                    if s == "all":
                        return "all"
                    best = best or s
    return best


def class_level_params_access(node):
    """Attribute nodes `<class-like>._param__private.params`."""
    out = []
    for sub in ast.walk(node):
        if isinstance(sub, ast.Attribute) and sub.attr == "params" and isinstance(sub.value, ast.Attribute) and sub.value.attr == "_param__private":
            root = norm(sub.value.value)
            if root in ("cls", "mcs", "class_", "self_.cls", "klass") or root.startswith("type("):
                out.append(sub)
    return out


def class_set_after_install(ctx, rule):
    """The metaclass installs the per-class copy before it lets the copy's __set__ run (and notify class-level watchers); shared by R13.e and R03.s."""
    # ---------------------------------------------------------------- R13.e
    ms = ctx.repo.func("param.parameterized.ParameterizedMetaclass.__setattr__")
    mc = ctx.facts.cfg(ms)
    sets = [n for n in mc.live_nodes() for c in calls_in(n) if isinstance(c.func, ast.Attribute) and c.func.attr == "__set__" and c.args and norm(c.args[0]) == "None"]
    ctx.require(sets, "metaclass __setattr__ no longer delegates to the descriptor's __set__(None, value)")
    installs = [n for n in mc.live_nodes() for c in calls_in(n) if norm(c.func) == "type.__setattr__" and len(c.args) == 3 and isinstance(c.args[2], ast.Name)
                and any("owning_class" in norm(e) for e, t in mc.conditions(n))]
    for sn in sets:
        early = [i for i in installs if any(x is i for x in mc.reachable_from([sn]))]
        via_ns = any(isinstance(c.func, ast.Attribute) and c.func.attr == "__set__" and "__dict__" in norm(c.func.value) for c in calls_in(sn))
        if early:
            ctx.fail(rule, ms, sn, "`%s` runs (and dispatches class-level watchers) before the copied Parameter is installed in the class namespace: inside the callback "
                                      "getattr / .param still resolve to the ancestor's Parameter, and a re-assignment made by the callback is overwritten" % sn.text()[:70],
                     key=ms.qualname + "::set-before-install",
                     input="class-level watcher on an inherited Parameter; first Sub.x = v -> inside the callback Sub.x is still the old value")
        else:
            ctx.ok(rule, ms, sn, "the set happens after the install%s" % (" and goes through the namespace entry" if via_ns else ""))


def value_reporters_agree(ctx, rule):
    """get_value_generator / inspect_value: the Parameter looked up in the instance namespace only chooses the route (shared by R13.g and R19.v)."""
    # ---------------------------------------------------------------- R13.g
    for fname in ("get_value_generator", "inspect_value"):
        g = ctx.repo.func("param.parameterized.Parameters." + fname)
        tainted = {}
        for st in ast.walk(g.node):
            if isinstance(st, ast.Assign) and len(st.targets) == 1 and isinstance(st.targets[0], ast.Name):
                src = norm(st.value)
                inst_lookup = False
                for c in ast.walk(st.value):
                    if isinstance(c, ast.Call) and isinstance(c.func, ast.Attribute) and c.func.attr == "objects":
                        a0 = c.args[0] if c.args else next((k.value for k in c.keywords if k.arg == "instance"), None)
                        base = norm(c.func.value)
                        class_level = (isinstance(a0, ast.Constant) and a0.value is False) and True
                        if not class_level and not base.startswith(("self_.cls.", "type(")):
                            inst_lookup = True
                    if isinstance(c, ast.Subscript) and norm(c.value) in ("self_", "cls_or_slf.param", "self_.self_or_cls.param", "self_.self.param"):
                        inst_lookup = True
                if inst_lookup:
                    tainted[st.targets[0].id] = src
        ctx.require(tainted, "Parameters.%s no longer looks the Parameter up in the (instance) namespace" % fname)
        bad = []
        gcfg = ctx.facts.cfg(g)
        for n in gcfg.live_nodes():
            if n.ast is None or n.kind not in ("stmt", "test"):
                continue
            for a in ast.walk(n.ast if n.kind == "test" or not isinstance(n.ast, (ast.If, ast.For, ast.While, ast.Try, ast.With)) else ast.Pass()):
                if isinstance(a, ast.Attribute) and isinstance(a.value, ast.Name) and a.value.id in tainted and a.attr in ("default", "_inspect", "__get__") and isinstance(a.ctx, ast.Load):
                    # on the branch where the subject is a class the lookup is the class-level one
                    on_class = any(t is True and norm(e).replace(" ", "") in ("isinstance(cls_or_slf,type)", "isinstance(self_.self_or_cls,type)") for e, t in gcfg.conditions(n))
                    if not on_class:
                        bad.append(a)
        if bad:
            a = bad[0]
            ctx.fail(rule, g, a, "`%s.%s` is read off a Parameter looked up with `%s`: on an instance this may be the per-instance copy, whose default is the one it was created with, while "
                                    "attribute access goes through the class-level Parameter -- after a class-level set, values()/repr/serialization report a value getattr does not" % (
                                        a.value.id, a.attr, tainted[a.value.id][:60]), key="%s::stale-instance-copy::%s" % (g.qualname, a.attr),
                     input="p = P(); p.param.n; P.n = 5  ->  p.n == 5 but p.param.values()['n'] == <old default>")
        else:
            ctx.ok(rule, g, g.node, "the Parameter looked up in the instance namespace (%s) is only used to choose the route; the value comes from getattr, the value store or the class-level Parameter" % ", ".join(sorted(tainted)))


def serializer_reports_what_getattr_reports(ctx, rule):
    """JSONSerialization.serialize_parameters is a value reporter in another module: the value it hands to the codec of
    each parameter must come from the namespace's own reporters (get_value_generator / inspect_value) or getattr -- the
    routes R13.g decides -- and never from `.default` of a Parameter out of `objects('existing')` (a per-instance copy
    keeps the default it was created with) or from the private value store read on the side."""
    from engine.loader import AnalysisError
    f = ctx.repo.func("param.serializer.JSONSerialization.serialize_parameters")
    sites = [c for c in ast.walk(f.node) if isinstance(c, ast.Call) and isinstance(c.func, ast.Attribute) and c.func.attr == "serialize" and len(c.args) == 1]
    ctx.require(len(sites) >= 1, "serialize_parameters no longer calls <parameter>.serialize(value)")

    def sources(e, depth=0):
        if isinstance(e, ast.Name):
            defs = [st.value for st in ast.walk(f.node) if isinstance(st, ast.Assign) and any(isinstance(t, ast.Name) and t.id == e.id for t in st.targets)]
            if not defs or depth > 3:
                raise AnalysisError("%s: the value serialize_parameters hands to the codec (`%s`) has no assignment the rule can follow" % (rule, e.id))
            return [x for d in defs for x in sources(d, depth + 1)]
        if isinstance(e, ast.IfExp):
            return sources(e.body, depth + 1) + sources(e.orelse, depth + 1)
        return [e]
    for c in sites:
        bad = []
        for src_ in sources(c.args[0]):
            ok = isinstance(src_, ast.Call) and ((isinstance(src_.func, ast.Attribute) and src_.func.attr in ("get_value_generator", "inspect_value")) or norm(src_.func) == "getattr")
            if not ok and isinstance(src_, ast.Call) and isinstance(src_.func, ast.Name):
                # a reporter bound to a local name first: `report = pobj.param.get_value_generator; report(name)`
                binds = [st.value for st in ast.walk(f.node) if isinstance(st, ast.Assign) and any(isinstance(t, ast.Name) and t.id == src_.func.id for t in st.targets)]
                ok = bool(binds) and all(isinstance(v, ast.Attribute) and v.attr in ("get_value_generator", "inspect_value") for v in binds)
            if not ok:
                bad.append(src_)
        if bad:
            ctx.fail(rule, f, bad[0], "serialize_parameters hands `%s` to the codec: not a value obtained through get_value_generator / inspect_value / getattr.  A `.default` read off the "
                                      "Parameter from objects('existing') is the per-instance copy's, frozen when the copy was made; after a class-level set the serialized value differs from getattr "
                                      "and values()" % norm(bad[0])[:80], key=f.qualname + "::value-not-from-the-reporters",
                     input="p = P(); p.param['x']; P.x = 7  ->  p.x == 7 but p.param.serialize_parameters() says the old default")
        else:
            ctx.ok(rule, f, c, "the value handed to the codec comes from the namespace's value reporters")


def run(ctx):
    ctx.rule("R13.z", "the serializer is a value reporter too: every value JSONSerialization.serialize_parameters hands to a codec comes from get_value_generator / inspect_value / getattr (the routes R13.g decides), never from `.default` of a looked-up Parameter or the private value store", floor=1)
    serializer_reports_what_getattr_reports(ctx, "R13.z")
    ctx.rule("R13.a", "every installation of a Parameter into a class namespace (type.__setattr__) is followed, on every path "
                      "incl. exceptional ones and before anything that may raise, by an invalidation of the `.param` cache "
                      "of that class AND all its subclasses", floor=3)
    ctx.rule("R13.b", "the class-level cache is read only by Parameters._cls_parameters (anyone may reset it)", floor=1)
    ctx.rule("R13.c", "every consumer of the namespace goes through _cls_parameters / objects()", floor=6)
    ctx.rule("R13.e", "a class-level set goes through the Parameter that is installed in the class namespace at that moment: on the copy-on-write branch the copy is installed "
                      "(and the caches dropped) before its __set__(None, value) runs watchers", floor=1)
    ctx.rule("R13.g", "value reporters agree with getattr: in Parameters.get_value_generator / inspect_value (behind values(), repr, pprint and serialization) the value of a parameter is "
                      "obtained through getattr, the instance value store, or the class-level Parameter (self_.cls.param[...] / type(...).param[...]) -- never from `.default` / `._inspect` / "
                      "`.__get__` of a Parameter object looked up in the instance namespace, which may be a per-instance copy still holding the default it was created with", floor=2)
    ctx.rule("R13.h", "namespace model: ParameterizedMetaclass.__setattr__ / _clear_params_cache, Parameters.add_parameter and the _cls_parameters property interpreted abstractly on the hierarchy "
                      "A <- B <- C (B overrides one parameter) under every history of up to 3 class-level operations (namespace reads, value sets, Parameter sets, add_parameter on any class, 1830 histories) and, for multiple inheritance, on the diamond D(B, E) over A with an override on E only (up to 2 operations): "
                      "every .param lookup lists exactly the names attribute lookup finds and, for each, the very Parameter that governs attribute access; a class-level set is copy-on-write", floor=1)
    ctx.rule("R13.i", "the namespace object keeps nothing of its own: inside class Parameters every store on the namespace (`self_.<attr> = ...`) targets a property of the class (the dispatcher "
                      "state, kept in the private store) or cls / self in __init__; nothing is written into `self_.__dict__` and setattr(self_, ...) occurs only in __setstate__ -- a Parameter "
                      "memoised on the (long-lived, class-level) namespace object is a second cache that no invalidation reaches", floor=8)
    ctx.rule("R13.j", "the walk that drops the caches of the subclasses is complete: descendents(), interpreted abstractly on a diamond (D below B and C below A) and on a class whose primary base "
                      "is a mixin, returns every transitive subclass exactly once", floor=1)
    ctx.rule("R13.f", "the memo is never mutated in place (it is handed out by reference); invalidation rebinds it", floor=1)
    ctx.not_decided += ["identity/equality of `.param[name]` and the governing descriptor after arbitrary histories (follows from R13.a-c but is not itself executed)"]

    sites = 0
    for f in ctx.repo.all_funcs("param.parameterized"):
        has = any(isinstance(c, ast.Call) and norm(c.func) in ("type.__setattr__", "type.__delattr__") for c in ast.walk(f.node))
        if not has:
            continue
        cfg = ctx.facts.cfg(f)
        for w in cfg.live_nodes():
            wcalls = [c for c in calls_in(w) if (norm(c.func) == "type.__setattr__" and len(c.args) == 3) or (norm(c.func) == "type.__delattr__" and len(c.args) == 2)]
            if not wcalls:
                continue
            c = wcalls[0]
            # a removal from the class namespace changes what attribute lookup finds just like an installation does
            vname = norm(c.args[2]) if len(c.args) == 3 else "<the Parameter removed>"
            sites += 1
            inval = {n.id: node_invalidation(ctx, f, n) for n in cfg.live_nodes()}

            def exempt(n):
                # the false arm of isinstance(<value>, Parameter): not a Parameter, nothing to invalidate
                if n.kind == "br":
                    for e, t in decompose(n.ast, n.polarity):
                        if t is False and norm(e) == "isinstance(%s, Parameter)" % vname.replace(" ", ""):
                            return True
                        if t is False and isinstance(e, ast.Call) and norm(e.func) == "isinstance" and norm(e.args[0]) == vname:
                            return True
                return False
            seen, stack, bad = set(), [t for l, t in w.succ], None
            weak = None
            while stack and bad is None:
                n = stack.pop()
                if n.id in seen:
                    continue
                seen.add(n.id)
                if inval[n.id] == "all" or exempt(n):
                    continue
                if inval[n.id] == "own":
                    weak = n
                if n is cfg.exit or n is cfg.excexit:
                    bad = n
                    break
                if n.may_raise and n.kind != "br":
                    # something may raise before the cache was invalidated
                    exc = [t for l, t in n.succ if l == "e"]
                    stack.extend(exc)
                stack.extend(t for l, t in n.succ)
            if bad is None:
                ctx.ok("R13.a", f, w, "every path from the write of `%s` reaches an all-subclasses invalidation first" % vname)
            else:
                p = cfg.path(w, bad, avoid=lambda n: inval[n.id] == "all") or [w, bad]
                ctx.fail("R13.a", f, w,
                         "after `%s` a path reaches the %s exit without invalidating the `.param` cache of the class and its subclasses%s: "
                         "a subclass whose namespace was read before keeps listing the old Parameter object" % (
                             w.text(), "exceptional" if bad is cfg.excexit else "normal",
                             " (only the class's own cache is cleared at L%d)" % weak.lineno if weak is not None else ""),
                         witness=cfg.witness(p),
                         input="class A(Parameterized): x=Number(1); class B(A): pass; B.param['x']; B.x = 5  ->  B.param['x'].default == 1")
    ctx.require(sites >= 3, "fewer than 3 type.__setattr__ installation sites found (%d)" % sites)

    # R13.b
    reads = 0
    for f in ctx.repo.all_funcs("param"):
        acc = class_level_params_access(f.node)
        if not acc:
            continue
        for a in acc:
            is_store = isinstance(a.ctx, ast.Store)
            parent_clear = any(isinstance(c, ast.Call) and isinstance(c.func, ast.Attribute) and c.func.value is a and c.func.attr == "clear"
                               for c in ast.walk(f.node))
            if is_store or parent_clear:
                continue
            reads += 1
            if f.qualname == PARAMETERS + "._cls_parameters":
                ctx.ok("R13.b", f, a, "the memo's own reader")
            else:
                ctx.fail("R13.b", f, a, "`%s` reads the class-level parameter cache directly, bypassing _cls_parameters (a stale or empty memo is observed)" % norm(a))
    ctx.require(reads >= 1, "the cache read in _cls_parameters was not recognised")

    # R13.c
    for m in CONSUMERS:
        f = ctx.repo.method(PARAMETERS, m)
        uses = any(isinstance(s, ast.Attribute) and s.attr in ("_cls_parameters",) for s in ast.walk(f.node)) or \
            any(isinstance(s, ast.Call) and isinstance(s.func, ast.Attribute) and s.func.attr in ("objects", "__getitem__") for s in ast.walk(f.node))
        if uses:
            ctx.ok("R13.c", f, f.node, "reads parameters through _cls_parameters/objects()")
        else:
            ctx.fail("R13.c", f, f.node, "namespace consumer does not go through _cls_parameters/objects()")

    # R13.d (shape of the MRO walk in _cls_parameters) was replaced by the namespace model R13.h, which interprets
    # the property and compares its result with attribute lookup; the shape rule rejected an equivalent dict-comprehension form.
    class_set_after_install(ctx, "R13.e")

    from checks.shared import memo_not_mutated_in_place
    memo_not_mutated_in_place(ctx, "R13.f")

    value_reporters_agree(ctx, "R13.g")

    # R13.i
    PARAMS = "param.parameterized.Parameters"
    props = {g.name for g in ctx.repo.funcs.values() if g.cls is not None and g.cls.qualname == PARAMS and g.has_decorator("property")}
    n_i = 0
    for g in ctx.repo.funcs.values():
        if g.cls is None or g.cls.qualname != PARAMS or not g.params:
            continue
        me = g.params[0]
        for n in ast.walk(g.node):
            tg = n.targets if isinstance(n, ast.Assign) else ([n.target] if isinstance(n, (ast.AugAssign, ast.AnnAssign)) else [])
            for t in tg:
                if isinstance(t, ast.Attribute) and isinstance(t.value, ast.Name) and t.value.id == me:
                    n_i += 1
                    if t.attr in props or (g.name == "__init__" and t.attr in ("cls", "self")):
                        ctx.ok("R13.i", g, n, "store through a property / constructor field")
                    else:
                        ctx.fail("R13.i", g, n, "%s stores `%s` on the namespace object itself: state kept there is not reached by the cache invalidation" % (g.qualname, norm(t)), key="%s::namespace-state::%s" % (g.qualname, t.attr))
                if isinstance(t, ast.Subscript) and norm(t.value) in (me + ".__dict__", "vars(%s)" % me):
                    n_i += 1
                    ctx.fail("R13.i", g, n, "%s memoises `%s` on the namespace object: the next `.param.<name>` is a plain attribute read that no class-level set or add_parameter on an ancestor "
                                            "invalidates, so `.param.<name>` and attribute access disagree" % (g.qualname, norm(t)), key="%s::namespace-memo" % g.qualname)
            if isinstance(n, ast.Call) and norm(n.func) in ("setattr", "object.__setattr__") and n.args and norm(n.args[0]) == me and g.name != "__setstate__":
                n_i += 1
                ctx.fail("R13.i", g, n, "%s sets an attribute on the namespace object (`%s`)" % (g.qualname, norm(n)[:60]), key="%s::namespace-setattr" % g.qualname)
    ctx.require(n_i >= 8, "fewer than 8 stores on the namespace object examined (%d)" % n_i)

    # R13.j
    from checks.shared import descendents_model
    descendents_model(ctx, "R13.j")

    # model-level rule, run last
    from checks import namespace_model
    namespace_model.report(ctx, "R13.h")
    ctx.rule("R13.x", "the instance-level lookup follows the class: Parameters.objects('existing') interpreted twice on one instance (its private namespace built by the real "
                      "_InstancePrivate.__init__) with the class-level lookup changed in between returns the class-level Parameters as they are at each call, overlaid with the instance's own", floor=1)
    existing_objects_follow_the_class(ctx, "R13.x")
    ctx.rule("R13.y", "readers do not edit the lookups: no function of param edits in place a local name bound to the result of `<x>.param.objects(...)` (which may be the live lookup of the class)", floor=1)
    lookups_are_not_edited_by_their_readers(ctx, "R13.y")


def existing_objects_follow_the_class(ctx, rule):
    """Parameters.objects('existing') -- the lookup behind .param.values(), repr, serialization and pprint of an instance --
    interpreted TWICE on one initialised instance that owns one per-instance Parameter object (the instance's private
    namespace is built by interpreting _InstancePrivate.__init__, so every slot it really has exists), with the class-level
    lookup changed in between (a Parameter added to an ancestor; a per-class copy installed by a class-level set).

    Specification: each call merges the class-level lookup AS IT IS NOW with the instance's own Parameter objects."""
    from engine.absint import Interp, Obj, Unsupported
    f = ctx.repo.func(P + "Parameters.objects")
    init = ctx.repo.func(P + "_InstancePrivate.__init__")
    own_x = Obj("instance_copy_of_Parameter_x")
    priv = Obj("instance_private")
    it0 = Interp(ctx.hier, inline_module_functions=True)
    try:
        outs = it0.run_all(init, {init.params[0]: priv, "initialized": True, "params": {"x": own_x}})
    except Unsupported as e:
        raise AnalysisError("%s: absint cannot interpret _InstancePrivate.__init__: %s" % (rule, e))
    if len(outs) != 1 or outs[0].imprecise or outs[0].kind != "return":
        raise AnalysisError("%s: _InstancePrivate.__init__ is not interpretable precisely" % rule)
    px, py = Obj("class_Parameter_x"), Obj("class_Parameter_y")
    py2, pz = Obj("per_class_copy_of_Parameter_y"), Obj("Parameter_z_added_to_an_ancestor")
    inst = Obj("instance", _param__private=priv)
    ns = Obj("instance_namespace", self=inst, self_or_cls=inst, cls=Obj("Cls"), _cls_parameters={"x": px, "y": py})

    def hook(fn, args, kwargs):
        if fn == "getattr" and len(args) in (2, 3) and isinstance(args[0], Obj) and isinstance(args[1], str):
            return args[0].attrs.get(args[1], args[2] if len(args) == 3 else None)
        if fn == "len" and len(args) == 1 and isinstance(args[0], dict):
            return len(args[0])
        return NotImplemented
    results = []
    for step in (1, 2):
        it = Interp(ctx.hier, dyn=P + "Parameters", inline=lambda m: False, call_hook=hook)
        try:
            outs = it.run_all(f, {f.params[0]: ns, "instance": "existing"})
        except Unsupported as e:
            raise AnalysisError("%s: absint cannot interpret Parameters.objects: %s" % (rule, e))
        if len(outs) != 1 or outs[0].imprecise or outs[0].kind != "return" or not isinstance(outs[0].value, dict):
            raise AnalysisError("%s: Parameters.objects('existing') is not interpretable precisely (%s)" % (rule, outs[0].notes[:2] if outs else "no outcome"))
        results.append(dict(outs[0].value))
        ns.attrs["_cls_parameters"] = {"x": px, "y": py2, "z": pz}       # the class hierarchy changes between the two reads
    ctx.abstract_cases += 2
    want1, want2 = {"x": own_x, "y": py}, {"x": own_x, "y": py2, "z": pz}
    def same(a, b):
        return set(a) == set(b) and all(a[k] is b[k] for k in b)
    if not same(results[0], want1):
        ctx.fail(rule, f, f.node, "objects('existing') of an instance with its own copy of x gives %s, specification {x: the instance's copy, y: the class-level Parameter}" % sorted(results[0]),
                 key=f.qualname + "::existing-lookup")
    elif not same(results[1], want2):
        ctx.fail(rule, f, f.node, "objects('existing') read again after the class hierarchy changed (a Parameter z added to an ancestor, y replaced by a per-class copy) still gives %s%s: values(), repr, "
                                  "serialization and pprint of the instance miss the new Parameter although getattr reaches it, and report against the replaced Parameter object" % (
                                      sorted(results[1]), "" if "y" not in results[1] or results[1]["y"] is py2 else " with the OLD object for y"), key=f.qualname + "::existing-lookup-stale",
                 input="p.x = 1; p.param.values(); A.param.add_parameter('z', Number(3)) -> 'z' missing from p.param.values() and repr(p)")
    else:
        ctx.ok(rule, f, f.node, "objects('existing') merges the class-level lookup as it is at every call with the instance's own Parameter objects")


def lookups_are_not_edited_by_their_readers(ctx, rule):
    """`<x>.param.objects(...)` may hand out the LIVE lookup of the class (objects(instance=False) always does, objects('existing')
    does for an instance without per-instance Parameters).  No function of param binds that result to a name and then
    edits it in place (pop / del / item assignment / update / clear / setdefault): that removes or adds entries of the
    class's `.param` namespace for everybody."""
    n, bad = 0, []
    MUT = ("pop", "popitem", "clear", "update", "setdefault", "__delitem__", "__setitem__")
    for f in ctx.repo.all_funcs("param"):
        live = {}
        for st in ast.walk(f.node):
            if isinstance(st, ast.Assign) and isinstance(st.value, ast.Call) and isinstance(st.value.func, ast.Attribute) and st.value.func.attr == "objects" \
                    and norm(st.value.func.value).endswith(".param"):
                for t in st.targets:
                    if isinstance(t, ast.Name):
                        live[t.id] = st
        if not live:
            continue
        n += len(live)
        for st in ast.walk(f.node):
            name = None
            if isinstance(st, ast.Call) and isinstance(st.func, ast.Attribute) and st.func.attr in MUT and isinstance(st.func.value, ast.Name):
                name = st.func.value.id
            if isinstance(st, (ast.Assign, ast.AugAssign)):
                for t in (st.targets if isinstance(st, ast.Assign) else [st.target]):
                    if isinstance(t, ast.Subscript) and isinstance(t.value, ast.Name):
                        name = t.value.id
            if isinstance(st, ast.Delete):
                for t in st.targets:
                    if isinstance(t, ast.Subscript) and isinstance(t.value, ast.Name):
                        name = t.value.id
            if name in live:
                bad.append((f, st, name))
    ctx.require(n >= 1, "no local name bound to a `.param.objects(...)` result found in param")
    if bad:
        f, st, name = bad[0]
        ctx.fail(rule, f, st, "%s edits `%s` in place (`%s`), a name bound to the result of `.param.objects(...)`: that can be the live lookup of the class, so the entry vanishes from (or appears "
                              "in) the class's `.param` namespace -- `.param[name]`, values(), serialization and instance creation break although getattr still works" % (
                                  f.qualname.split(".", 2)[-1], name, norm(st)[:50]), key="%s::edits-the-live-lookup" % f.qualname,
                 input="%params on an instance without per-instance Parameters removes `name` from the class's .param")
    else:
        ctx.ok(rule, ctx.repo.func("param.parameterized.Parameters.objects"), None, "none of the %d local names bound to a `.param.objects(...)` result is edited in place" % n)
