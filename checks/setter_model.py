"""Setter model: Parameter.__set__ interpreted abstractly over its decision
inputs and compared with a specification written from the properties.

Inputs (all finite): route (class / initialized instance / instance under
construction), constant/readonly flags, whether validation rejects, whether the
value is identical to the one held, reference mode for allow_refs parameters
(plain value with/without an existing link, the sync's own write, a reference
with a current value, an asynchronous reference, a reference without a value),
watchers present or not, batching flag.

Observed: exception class, where the value was stored, and the ordered trace of
effect calls (validate, relink, post_setter, update_deps, dispatch per watcher,
flush).  Specification per aspect:

  C01  validation happens before any store; a rejected value stores nothing
  C02  nothing (store / relink / post_setter / update_deps / dispatch / flush)
       happens when the assignment raises
  C08  relink(ref) iff a reference was assigned; relink(None) iff a plain value
       overrides an existing link and the write is not the sync's own
  C12  class route writes the class default only, instance routes the instance
       store only
  C14  readonly always raises TypeError; constant on an initialized instance
       raises unless the identical object is assigned, and then stores nothing
  C03  after the store: update_deps, then every value watcher in precedence
       order with event(old = previous value, new = value), then flush iff not
       batching; nothing is dispatched for an instance under construction
"""
from __future__ import annotations

import itertools

from engine.absint import TOP, Interp, Obj, Record, Unsupported, _Raise
from engine.hierarchy import PARAMETER
from engine.loader import AnalysisError

class RecDict(dict):
    """dict that remembers which keys were written (to observe a store of the identical object)."""

    def __init__(self, *a, **k):
        super().__init__(*a, **k)
        self.written = []

    def __setitem__(self, k, v):
        self.written.append(k)
        super().__setitem__(k, v)


REFMODES = ["plain_nolink", "plain_link", "plain_link_syncing", "syncref", "syncref_same", "asyncref", "undefined"]


def cases():
    for route in ("class", "inst_init", "inst_uninit"):
        # (False, True): a read-only parameter whose constant flag is temporarily cleared (inside edit_constant)
        for constant, readonly in ((False, False), (True, False), (True, True), (False, True)):
            for vraises in (False, True):
                for identical in (False, True):
                    modes = REFMODES if route == "inst_init" else [None]
                    for allow_refs in (False, True):
                        for mode in (modes if allow_refs else [None]):
                            for watchers, batch in ((False, False), (True, False), (True, True)):
                                yield dict(route=route, constant=constant, readonly=readonly, vraises=vraises, identical=identical,
                                           allow_refs=allow_refs, mode=mode, watchers=watchers, batch=batch)
    # the value assigned is None (a sub-object detached, a value cleared): nothing about the sequence of steps changes
    for watchers in (False, True):
        yield dict(route="inst_init", constant=False, readonly=False, vraises=False, identical=False, allow_refs=False, mode=None, watchers=watchers, batch=False, none_value=True)


def expected(c):
    """(exception or None, store location or None, trace) per the specification."""
    route, mode = c["route"], c["mode"]
    refs_on = c["allow_refs"] and route == "inst_init"
    if refs_on and (c["constant"] or c["readonly"]) and mode == "asyncref":
        return "TypeError", None, []
    trace = []
    if refs_on and mode in ("asyncref", "undefined"):
        if c["readonly"] or c["constant"]:
            return "TypeError", None, []
        return None, None, ["relink:ref"]
    trace.append("validate")
    if c["vraises"]:
        return "ValueError", None, ["validate"]
    if c["readonly"]:
        return "TypeError", None, ["validate"]
    store = "default" if route == "class" else "values"
    if c["constant"] and route == "inst_init":
        if not c["identical"]:
            return "TypeError", None, ["validate"]
        store = None
    if refs_on:
        if mode in ("syncref", "syncref_same"):
            trace.append("relink:ref")
        elif mode == "plain_link":
            trace.append("relink:None")
    trace.append("post_setter")
    if route == "inst_uninit":
        return None, store, trace
    if route == "inst_init":
        trace.append("update_deps")
    if c["watchers"]:
        trace += ["dispatch:w_low", "dispatch:w_high"]
        if not c["batch"]:
            trace.append("flush")
    return None, store, trace


def run_case(ctx, f, c):
    OLD, NEW = Obj("old_value"), (None if c.get("none_value") else Obj("new_value"))
    held = NEW if c["identical"] else OLD
    w_high = Obj("w_high", precedence=1)
    w_low = Obj("w_low", precedence=0)
    wl = [w_high, w_low] if c["watchers"] else []
    # while a batch is open, an event for the very same transition is already pending (value toggled back and forth)
    pending = [Obj("pending_event", __eqclass__="event:x:held->new")] if c["batch"] else []
    owner_ns = Obj("owner_ns", _BATCH_WATCH=c["batch"], _events=list(pending), _state_events=list(pending))
    owner = Obj("Owner", param=owner_ns)
    REF = Obj("the_reference")
    pobj = Obj("param_x", name="x", allow_refs=c["allow_refs"], constant=c["constant"], readonly=c["readonly"],
               default=held, watchers=({"value": list(wl)} if c["route"] == "class" and wl else {}), owner=owner)
    pobj.attrs = RecDict(pobj.attrs)
    trace = []
    if c["route"] == "class":
        inst = None
    else:
        mode = c["mode"]
        priv = Obj("private", initialized=(c["route"] == "inst_init"),
                   syncing=(["x"] if mode == "plain_link_syncing" else []),
                   refs=({"x": Obj("old_reference")} if mode in ("plain_link", "plain_link_syncing") else ({"x": REF} if mode == "syncref_same" else {})),
                   values=RecDict({"x": held}), watchers=({"x": {"value": list(wl)}} if wl else {}), async_refs={})
        ns = Obj("inst_ns", _BATCH_WATCH=c["batch"], _events=list(pending), _state_events=list(pending))
        inst = Obj("inst", _param__private=priv, param=ns)

    def hook(fn, args, kwargs):
        if fn in ("iscoroutinefunction", "inspect.isgeneratorfunction"):
            return c["mode"] == "asyncref" and fn == "iscoroutinefunction"
        if fn.endswith("._resolve_ref"):
            trace.append("resolve")
            m = c["mode"]
            if m in ("syncref", "syncref_same"):
                return (REF, [Obj("dep")], NEW, False)
            if m == "asyncref":
                return (REF, None, None, True)
            if m == "undefined":
                return (REF, [Obj("dep")], UNDEF, False)
            return (None, None, args[1] if len(args) > 1 else NEW, False)
        if fn == "hasattr":
            if len(args) == 2 and args[0] is NEW:
                return NEW is not None and args[1] in NEW.attrs         # the assigned value is a plain object (or None): it has no attributes of its own
            return False if (len(args) == 2 and args[1] == "set_hook") else True
        if fn == "getattr" and len(args) >= 2 and isinstance(args[0], Obj):
            return args[0].attrs.get(args[1], args[2] if len(args) > 2 else TOP)
        if fn == "isinstance":
            return True
        if fn == "self._validate":
            trace.append("validate")
            if c["vraises"]:
                raise _Raise("ValueError")
            return None
        if fn == "self._relink":
            trace.append("relink:%s" % ("ref" if (len(args) > 2 and args[2] is REF) else ("None" if len(args) > 2 and args[2] is None else "?")))
            return None
        if fn == "self._post_setter":
            trace.append("post_setter")
            return None
        if fn.endswith("._update_deps"):
            trace.append("update_deps")
            return None
        if fn.endswith("._update_ref"):
            trace.append("relink:%s" % ("ref" if (len(args) > 1 and args[1] is REF) else ("None" if len(args) > 1 and args[1] is None else "?")))
            return None
        if fn.endswith("._call_watcher"):
            ev = args[1] if len(args) > 1 else None
            okev = isinstance(ev, Obj) and ev.attrs.get("old") is held and ev.attrs.get("new") is NEW and ev.attrs.get("name") == "x" and ev.attrs.get("what") == "value"
            trace.append("dispatch:%s%s" % (getattr(args[0], "name", "?"), "" if okev else "(wrong-event)"))
            return None
        if fn.endswith("._batch_call_watchers"):
            trace.append("flush")
            return None
        if fn == "warnings.warn":
            return None
        if fn == "Event" and not args:
            # Event is a namedtuple: equal to any other Event with the same fields
            same = kwargs.get("old") is held and kwargs.get("new") is NEW and kwargs.get("name") == "x"
            return Obj("event", __eqclass__="event:x:held->new" if same else "event:other", **kwargs)
        return NotImplemented
    UNDEF = Obj("Undefined")
    it = Interp(ctx.hier, dyn=PARAMETER, call_hook=hook,
                globals={"Undefined": UNDEF, "NotImplemented": Obj("NotImplemented"), "_identity_hook": Obj("_identity_hook")})
    outs = it.run_all(f, {"self": pobj, "obj": inst, "val": NEW})
    if len(outs) != 1 or outs[0].imprecise:
        raise AnalysisError("setter model: Parameter.__set__ is not interpretable precisely on %r (%s)" % (
            c, outs[0].notes[:2] if outs else "no outcome"))
    o = outs[0]
    exc = o.value if o.kind == "raise" else None
    stored_default = "default" in pobj.attrs.written
    stored_values = inst is not None and "x" in inst.attrs["_param__private"].attrs["values"].written
    store = "default" if stored_default else ("values" if stored_values else None)
    if stored_default and stored_values:
        store = "both"
    return exc, store, [t for t in trace if t != "resolve"]


ASPECTS = {
    "C01": "validation precedes every store; a rejected value stores nothing",
    "C02": "an assignment that raises leaves no effect behind (store, relink, post_setter, update_deps, dispatch, flush)",
    "C03": "after the store: update_deps, every value watcher in precedence order with event(old, new), flush iff not batching",
    "C04": "while a batch is open every assignment still hands its event to every watcher, also when an equal event (same transition) is already pending: the flush keeps the LAST event per parameter, so a skipped one leaves the watchers with a stale value",
    "C05": "everything an assignment does besides notifying (store, link install/drop, post_setter, dependency rebinding) is done before the first watcher runs: a watcher that raises must not leave the assignment half applied (value stored, link unchanged)",
    "C07": "every assignment on an initialized instance re-resolves the dependencies that pass through the assigned parameter, whatever the new value is (detaching to None or to a plain value must take the watchers off the detached object), after the store and before the watchers run",
    "C18": "every assignment is validated -- also re-assigning the very object the parameter already holds: for a Selector the objects in force may have changed since (the held object may have been removed), so an unvalidated re-assignment makes the accepted values disagree with the objects",
    "C08": "relink(ref) iff a reference was assigned; relink(None) iff a plain value overrides an existing link (not for the sync's own write)",
    "C10": "a plain value that overrides an existing link ends it -- relink(None) is what cancels the pending asynchronous evaluation -- and a new reference replaces the old one (not for the sync's own write)",
    "C12": "class route writes the class default only, instance routes the instance store only -- and always record the value for the instance, also when it is the object the class default currently is",
    "C16": "every value that is stored was validated first (a state stored unvalidated is outside what the generated schema describes)",
    "C14": "readonly always raises TypeError; constant on an initialized instance raises unless the identical object is assigned; a refused assignment neither stores nor installs a link (whose next update would rebind the constant)",
}


def classify(c, got, want):
    """Which properties does a disagreement concern?"""
    gexc, gstore, gtrace = got
    wexc, wstore, wtrace = want
    out = set()
    if wexc and not gexc:
        out.add("C14" if wexc == "TypeError" else "C01")
    if gexc and not wexc:
        out.add("C14" if gexc == "TypeError" else "C01")
    if gexc or wexc:
        effects = [t for t in gtrace if t != "validate"]
        if gexc and (effects or gstore):
            out.add("C02")
            if (c["constant"] or c["readonly"]) and (gstore or any(t.startswith("relink") for t in effects)):
                # the refused assignment still stored, or installed a link whose next update rebinds the constant
                out.add("C14")
    if gstore != wstore:
        out.add("C12" if (gstore and wstore) else ("C14" if c["constant"] or c["readonly"] else "C01"))
        if gstore and "validate" not in gtrace:
            out.add("C01")
            out.add("C16")
        if wstore == "values" and gstore is None and not gexc and not wexc:
            # nothing recorded for the instance: it goes on following the class default it was explicitly given
            out.add("C12")
    grel = [t for t in gtrace if t.startswith("relink")]
    wrel = [t for t in wtrace if t.startswith("relink")]
    if grel != wrel:
        out.add("C08")
        if wrel and not wexc:
            out.add("C10")
        if gexc:
            out.add("C02")
    gd = [t for t in gtrace if t.startswith(("dispatch", "flush", "update_deps", "post_setter"))]
    wd = [t for t in wtrace if t.startswith(("dispatch", "flush", "update_deps", "post_setter"))]
    if gd != wd and not (gexc and not wexc):
        out.add("C03")
        if c["batch"] and [t for t in gd if t.startswith("dispatch")] != [t for t in wd if t.startswith("dispatch")]:
            out.add("C04")
    if "validate" in wtrace and "validate" not in gtrace:
        out.add("C18")
        out.add("C01")
    if ("update_deps" in wtrace) != ("update_deps" in gtrace) and not gexc and not wexc:
        out.add("C07")
    first_notify = next((i for i, t in enumerate(gtrace) if t.startswith(("dispatch", "flush"))), None)
    if first_notify is not None and "update_deps" in gtrace[first_notify:]:
        out.add("C07")
    if first_notify is not None:
        late = [t for t in gtrace[first_notify:] if t.startswith(("relink", "post_setter", "update_deps"))]
        if late:
            out.add("C05")
            if any(t.startswith("relink") for t in late):
                out.add("C08")
    if "validate" in wtrace and gtrace and "validate" in gtrace and gtrace.index("validate") != 0:
        out.add("C02")
    if not out:
        out.add("C02")
    return out


def _canon(trace):
    rel = [t for t in trace if t.startswith("relink")]
    rest = [t for t in trace if not t.startswith("relink")]
    first_notify = next((i for i, t in enumerate(trace) if t.startswith(("dispatch", "flush", "update_deps"))), len(trace))
    if any(i > first_notify for i, t in enumerate(trace) if t.startswith("relink")):
        return trace          # (un)linking after the watchers were told: not a matter of taste any more
    if "post_setter" in rest and rel:
        i = rest.index("post_setter")
        return rest[:i] + rel + rest[i:]
    return trace


def setter_model(ctx):
    """Returns (n_cases, {property: [(case, got, want)]})."""
    # one model run per check run (never keyed by id(): ids are reused after garbage collection)
    memo = ctx.__dict__.setdefault('_model_memo', {})
    if 'setter_model' in memo:
        return memo['setter_model']
    f = ctx.repo.method(PARAMETER, "__set__")
    per = {k: [] for k in ASPECTS}
    n = 0
    for c in cases():
        try:
            got = run_case(ctx, f, c)
        except Unsupported as e:
            raise AnalysisError("setter model: absint cannot interpret Parameter.__set__: %s" % e)
        want = expected(c)
        n += 1
        # the relative order of relink and post_setter is not part of the specification
        got = (got[0], got[1], _canon(got[2]))
        want = (want[0], want[1], _canon(want[2]))
        if want[0] is not None and got[0] is not None:
            # a rejected assignment: which of several applicable rejections comes first (and whether the value
            # was validated before a constant/readonly rejection) is not specified; that nothing else happened is
            both = c["vraises"] and (c["readonly"] or (c["constant"] and c["route"] == "inst_init" and not c["identical"]))
            same_exc = got[0] == want[0] or (both and got[0] in ("ValueError", "TypeError"))
            if same_exc and got[1] is None and not [t for t in got[2] if t != "validate"]:
                continue
        if got != want:
            for p in classify(c, got, want):
                per[p].append((c, got, want))
    memo['setter_model'] = (n, per)
    return n, per


def report(ctx, prop, rule):
    n, per = setter_model(ctx)
    f = ctx.repo.method(PARAMETER, "__set__")
    ctx.abstract_cases += n
    bad = per[prop]
    if not bad:
        ctx.ok(rule, f, f.node, "setter model, %d abstract cases: %s" % (n, ASPECTS[prop]))
        return
    c, got, want = bad[0]
    cfg = ", ".join("%s=%s" % (k, v) for k, v in c.items() if v not in (None, False) or k in ("route",))
    ctx.fail(rule, f, f.node,
             "setter model (%s): for [%s] the setter gives exception=%s, store=%s, effects=%s; specification: exception=%s, store=%s, effects=%s (%d disagreeing cases)" % (
                 ASPECTS[prop], cfg, got[0], got[1], got[2], want[0], want[1], want[2], len(bad)),
             key="%s::setter-model::%s" % (f.qualname, prop))


def watcher_raises_model(ctx, rule):
    """Parameter.__set__ on an initialised instance with two value watchers and no batch open, where the FIRST watcher the
    setter hands to `_call_watcher` raises.

    Specification (C05): the exception leaves the setter, and nothing is handed to a queue on its way out: every
    `_call_watcher` call made after the failure is followed by a flush before the exception leaves (the object has no
    batch open -- whatever stays queued would be delivered by some later, unrelated assignment)."""
    f = ctx.repo.method(PARAMETER, "__set__")
    OLD, NEW = Obj("old_value"), Obj("new_value")
    w_high, w_low = Obj("w_high", precedence=1), Obj("w_low", precedence=0)
    priv = Obj("private", initialized=True, syncing=[], refs={}, values={"x": OLD}, watchers={"x": {"value": [w_high, w_low]}}, async_refs={})
    ns = Obj("inst_ns", _BATCH_WATCH=False, _events=[], _state_watchers=[])
    inst = Obj("inst", _param__private=priv, param=ns)
    pobj = Obj("param_x", name="x", allow_refs=False, constant=False, readonly=False, default=OLD, watchers={}, owner=Obj("Owner"))
    trace = []

    def hook(fn, args, kwargs):
        if fn == "hasattr":
            return False if (len(args) == 2 and args[1] == "set_hook") else True
        if fn == "getattr" and len(args) >= 2 and isinstance(args[0], Obj):
            return args[0].attrs.get(args[1], args[2] if len(args) > 2 else TOP)
        if fn == "isinstance":
            return True
        if fn in ("self._validate", "self._post_setter", "self._relink") or fn.endswith("._update_deps"):
            return None
        if fn.endswith("._call_watcher"):
            first = not any(t[0] == "dispatch" for t in trace)
            trace.append(("dispatch", getattr(args[0], "name", "?")))
            if first:
                raise _Raise("RuntimeError")
            return None
        if fn.endswith("._batch_call_watchers") and not fn.startswith("_batch"):
            trace.append(("flush",))
            return None
        if fn == "_batch_call_watchers":
            trace.append(("scope", kwargs.get("run", True)))
            return Obj("scope")
        if fn == "Event" and not args:
            return Obj("event", **kwargs)
        if fn == "warnings.warn":
            return None
        return NotImplemented
    it = Interp(ctx.hier, dyn=PARAMETER, call_hook=hook, globals={"Undefined": Obj("Undefined"), "NotImplemented": Obj("NotImplemented"), "_identity_hook": Obj("_identity_hook")})
    try:
        outs = it.run_all(f, {"self": pobj, "obj": inst, "val": NEW})
    except Unsupported as e:
        raise AnalysisError("setter model (raising watcher): absint cannot interpret Parameter.__set__: %s" % e)
    if len(outs) != 1 or outs[0].imprecise:
        raise AnalysisError("setter model (raising watcher): Parameter.__set__ is not interpretable precisely (%s)" % (outs[0].notes[:2] if outs else "no outcome"))
    ctx.abstract_cases += 1
    o = outs[0]
    after = trace[1:] if trace and trace[0][0] == "dispatch" else trace
    later = [i for i, t in enumerate(after) if t[0] == "dispatch"]
    flushed = later and any(t[0] == "flush" for t in after[later[-1]:])
    if o.kind != "raise":
        ctx.fail(rule, f, f.node, "setter model (raising watcher): the exception of a watcher is swallowed by the setter", key=f.qualname + "::watcher-exception-swallowed")
    elif later and not flushed:
        ctx.fail(rule, f, f.node, "setter model (raising watcher): after a watcher raised, the setter hands the remaining watchers (%s) to `_call_watcher` on its way out and leaves without a flush: "
                                  "with no batch open the event and those watchers stay queued on the object and are delivered by the next unrelated assignment (repeated faults pile up)" % (
                                      ", ".join(after[i][1] for i in later)), key=f.qualname + "::requeue-after-failure",
                 input="two watchers on x, the first raises: p.x = 1 -> RuntimeError; p.y = 2 -> the second watcher of x is called with the stale event")
    else:
        ctx.ok(rule, f, f.node, "setter model (raising watcher): the exception leaves the setter and nothing is queued on its way out")
