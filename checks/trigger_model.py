"""Trigger model: Parameters.trigger interpreted abstractly.

Inputs: instance / class namespace; the names given (a plain parameter `a`, an
Event parameter `e`, both, an unknown name); what the queues hold when trigger
is called (nothing, or an event and a watcher queued earlier in an open
batch); whether the update it performs succeeds, queues the same watcher again
plus a new one, or raises.

Specification (C04/C05/C08): update is called exactly once, with the trigger
flag raised, with the parked queues empty, with the CURRENT value of every
plain name and the trigger value of every Event name, and -- on an instance --
inside a `_syncing` scope naming the triggered parameters; whatever happens,
on exit the trigger flag is lowered, everything that was queued before is
queued again together with what the update queued, and no watcher is queued
twice (by identity); an unknown name raises before anything was touched.
"""
from __future__ import annotations

import itertools

from engine.absint import Interp, Obj, Unsupported, _Raise
from engine.loader import AnalysisError

P = "param.parameterized."


def run_case(ctx, f, instance, names, pre, outcome):
    ev = Obj("event_param", _autotrigger_value=True)
    pa, pb = Obj("param_a"), Obj("param_b")
    known = {"a": pa, "b": pb, "e": ev}
    cur = {"a": Obj("current_value_of_a"), "b": Obj("current_value_of_b"), "e": False}
    e_prev, w_prev, w_new, e_new = Obj("event_queued_before"), Obj("watcher_queued_before"), Obj("watcher_queued_by_trigger"), Obj("event_queued_by_trigger")
    # the instance follows a dependency-free asynchronous reference: it has refs / async_refs entries but no source watchers
    inst = Obj("instance", _param__private=Obj("private", initialized=True, ref_watchers=[], refs={"a": Obj("async_reference")}, async_refs={"a": Obj("pending_task")})) if instance else None
    ns = Obj("ns", self=inst, _TRIGGER=False, _BATCH_WATCH=outcome in ("queues", "raises-after-queueing"), _events=[e_prev] if pre else [], _state_watchers=[w_prev] if pre else [],
             __getitem__=dict(known), __contains__=list(known), __iter__=list(known))
    seen = {"updates": [], "syncing": []}

    def hook(fn, args, kwargs):
        if fn == "hasattr" and len(args) == 2:
            return isinstance(args[0], Obj) and args[1] in args[0].attrs
        if fn == "self_.values":
            return dict(cur)
        if fn == "_syncing":
            seen["syncing"].append((args[0] if args else None, tuple(args[1]) if len(args) > 1 and isinstance(args[1], (list, tuple)) else None, len(seen["updates"])))
            return Obj("syncing_scope")
        if fn in ("self_.update", "self_._update"):
            given = dict(args[0]) if args and isinstance(args[0], dict) else dict(kwargs)
            seen["updates"].append(dict(given=given, trigger=ns.attrs["_TRIGGER"], events=list(ns.attrs["_events"]), watchers=list(ns.attrs["_state_watchers"]),
                                        in_syncing=len(seen["syncing"])))
            if outcome in ("queues", "raises-after-queueing"):
                # an enclosing batch is open: the update queues instead of dispatching
                ns.attrs["_events"].append(e_new)
                ns.attrs["_state_watchers"].extend([w_prev, w_new] if pre else [w_new])
            if outcome.startswith("raises"):
                raise _Raise("RuntimeError")
            return Obj("restorer")
        return NotImplemented
    it = Interp(ctx.hier, dyn=P + "Parameters", inline=lambda m: True, call_hook=hook, globals={"Undefined": Obj("Undefined")}, strict_self_calls=True)
    outs = it.run_all(f, {"self_": ns, "param_names": tuple(names)})
    if len(outs) != 1 or outs[0].imprecise:
        raise AnalysisError("trigger model: Parameters.trigger is not interpretable precisely (%s)" % (outs[0].notes[:2] if outs else "no outcome"))
    return outs[0], ns, seen, cur, (e_prev, w_prev, w_new, e_new), inst


def model(ctx):
    f = ctx.repo.func(P + "Parameters.trigger")
    problems = {"C04": [], "C05": [], "C08": [], "C03": [], "C10": []}
    n = 0
    for instance, names, pre, outcome in itertools.product([True, False], [("a",), ("e",), ("a", "e"), ("b", "a"), ("zzz",), ("a", "zzz")], [False, True],
                                                           ["dispatches", "queues", "raises", "raises-after-queueing"]):
        try:
            o, ns, seen, cur, (e_prev, w_prev, w_new, e_new), inst = run_case(ctx, f, instance, names, pre, outcome)
        except Unsupported as e:
            raise AnalysisError("trigger model: absint cannot interpret Parameters.trigger: %s" % e)
        n += 1
        desc = "%s.param.trigger(%s)%s, the update it performs %s" % ("obj" if instance else "Cls", ", ".join(repr(x) for x in names),
                                                                      " with an event and a watcher already queued" if pre else "", outcome)
        unknown = "zzz" in names
        if ns.attrs["_TRIGGER"] is not False:
            problems["C05"].append("%s: the trigger flag is still raised on exit (every later event is typed 'triggered' and bypasses the changes-only filter)" % desc)
        ev_q, w_q = ns.attrs["_events"], ns.attrs["_state_watchers"]
        if not isinstance(ev_q, list) or not isinstance(w_q, list):
            raise AnalysisError("trigger model: the queues are no longer known exactly after %s" % desc)
        if unknown:
            if o.kind != "raise":
                problems["C05"].append("%s: an unknown name does not raise" % desc)
            if seen["updates"]:
                problems["C05"].append("%s: the update is performed although a name is unknown" % desc)
            want_e, want_w = ([e_prev] if pre else []), ([w_prev] if pre else [])
        else:
            if len(seen["updates"]) != 1:
                problems["C03"].append("%s: update is called %d time(s)" % (desc, len(seen["updates"])))
                continue
            u = seen["updates"][0]
            if u["trigger"] is not True:
                problems["C03"].append("%s: the update runs with the trigger flag lowered (unchanged values are filtered, nobody is notified)" % desc)
            if u["events"] or u["watchers"]:
                for tgt_ in ("C04", "C03"):
                    problems[tgt_].append("%s: the update runs with the previously queued events/watchers still in the queues: they are flushed with the trigger flag raised, so a genuine "
                                          "change is delivered with type 'triggered' instead of 'changed'" % desc)
            want = {k: (True if k == "e" else cur[k]) for k in names}
            g = u["given"]
            if set(g) != set(want) or any(g[k] is not want[k] for k in want):
                problems["C04"].append("%s: update is given %s, specification: the current value of every plain name and True for every Event name" % (
                    desc, {k: getattr(v, "name", v) for k, v in g.items()}))
            if instance and not any(s[0] is inst and s[1] is not None and set(s[1]) >= set(names) and s[2] == 0 for s in seen["syncing"]):
                problems["C08"].append("%s: the write-back is not inside a _syncing scope naming the triggered parameters (a linked parameter loses its link)" % desc)
                problems["C10"].append("%s: the write-back is not inside a _syncing scope naming the triggered parameters: it is taken for an override, which cancels the pending asynchronous "
                                       "evaluation and drops the reference -- the parameter never receives the result of the latest assignment (also for an object whose only "
                                       "reference has no dependencies, hence no source watchers)" % desc)
            if bool(outcome.startswith("raises")) != (o.kind == "raise"):
                problems["C05"].append("%s: outcome %s" % (desc, o.kind))
            queued = outcome in ("queues", "raises-after-queueing")
            want_e = ([e_new] if queued else []) + ([e_prev] if pre else [])
            want_w = ([w_prev] if pre else []) + ([w_new] if queued else [])
        if sorted(id(x) for x in ev_q) != sorted(id(x) for x in want_e):
            for tgt_ in (["C05", "C04"] if unknown else ["C05"] if outcome.startswith("raises") else ["C04"]):
              problems[tgt_].append(
                "%s: the event queue holds %s on exit, specification %s (events queued before the trigger must survive it, also when it fails)" % (
                    desc, [x.name for x in ev_q], [x.name for x in want_e]))
        if len({id(x) for x in w_q}) != len(w_q):
            problems["C04"].append("%s: a watcher is queued twice on exit (%s): it runs twice at the flush" % (desc, [x.name for x in w_q]))
        elif {id(x) for x in w_q} != {id(x) for x in want_w}:
            (problems["C05"] if outcome.startswith("raises") or unknown else problems["C04"]).append(
                "%s: the watcher queue holds %s on exit, specification %s" % (desc, [x.name for x in w_q], [x.name for x in want_w]))
    return n, problems


def report(ctx, prop, rule):
    # one model run per check run (never keyed by id(): ids are reused after garbage collection)
    memo = ctx.__dict__.setdefault('_model_memo', {})
    if 'trigger_model' not in memo:
        memo['trigger_model'] = model(ctx)
    n, problems = memo['trigger_model']
    f = ctx.repo.func(P + "Parameters.trigger")
    ctx.abstract_cases += n
    bad = problems[prop]
    if not bad:
        ctx.ok(rule, f, f.node, "trigger model, %d abstract cases (instance/class x names incl. an Event and an unknown name x queued-before x update dispatches/queues/raises): agrees with the specification" % n)
    else:
        ctx.fail(rule, f, f.node, "trigger model: %s (%d disagreeing observation(s))" % (bad[0], len(bad)), key="%s::trigger-model::%s" % (f.qualname, prop))
