"""Selector membership model (C01 / C18): the validators of Selector and ListSelector
interpreted abstractly on small stores.

Stores: `_objects` (the collection in force: the list view, get_range() and the
objects setter all go through it) and `names`.  Three states: declared from a
list (no names), declared from a dict (names agree), and a dict-declared
selector after a list-style replacement (names still mention an object that is
no longer in `_objects` -- reachable through the deprecated list-style API).

Specification: with check_on_set, a value is accepted iff it is None and
allow_None, or it is one of the objects in force (`_objects`); a ListSelector
accepts a list iff every item is; nothing is appended.  Without check_on_set
an unknown value is accepted and appended to `_objects` exactly once.
"""
from __future__ import annotations

import itertools

from engine.absint import Interp, Obj, Unsupported
from engine.loader import AnalysisError

SEL = "param.parameters.Selector"
LSEL = "param.parameters.ListSelector"


def run_case(ctx, q, state, allow_none, check, kind):
    x, y, z, u = Obj("x"), Obj("y"), Obj("z"), Obj("unknown")
    objects = [x, y]
    names = {}
    if state == "dict":
        names = {"a": x, "b": y}
    elif state == "dict-after-list-style-replacement":
        names = {"a": x, "b": y}
        objects = [x, z]            # objects[1] = z
    sel = Obj("selector", _objects=objects, names=names, allow_None=allow_none, check_on_set=check, name="s", owner=None)
    sel.attrs["__cls__"] = q
    vals = {"none": None, "known": objects[0], "replaced-in": objects[1], "stale-name": y, "unknown": u}
    if q == LSEL:
        base = vals[kind] if kind != "none" else None
        val = None if kind == "none" else [objects[0], base]
    else:
        val = vals[kind]

    def hook(fn, args, kwargs):
        if fn == "ListProxy" and args:
            return args[0]
        if fn == "isinstance" and len(args) == 2:
            return isinstance(args[0], list)
        if fn in ("str", "repr"):
            return "item"
        if fn == "_validate_error_prefix":
            return "Selector parameter"
        if fn.endswith(".join"):
            return "items"
        return NotImplemented
    f = ctx.hier.resolve(q, "_validate")
    it = Interp(ctx.hier, dyn=q, inline=lambda m: True, call_hook=hook, strict_self_calls=True)
    n0 = len(objects)
    outs = it.run_all(f, {f.params[0]: sel, f.params[1]: val})
    kinds = {o.kind for o in outs}
    if len(kinds) != 1:
        raise AnalysisError("selector model: %s._validate has several outcomes for one abstract input (%s)" % (q.rsplit(".", 1)[-1], [o.notes[:1] for o in outs]))
    return outs[0], sel, n0, vals, val


def model(ctx):
    problems, n = [], 0
    for q in (SEL, LSEL):
        name = q.rsplit(".", 1)[-1]
        for state, allow_none, check, kind in itertools.product(["list", "dict", "dict-after-list-style-replacement"], [True, False], [True, False],
                                                                ["none", "known", "replaced-in", "stale-name", "unknown"]):
            if kind == "stale-name" and state != "dict-after-list-style-replacement":
                continue
            try:
                o, sel, n0, vals, val = run_case(ctx, q, state, allow_none, check, kind)
            except Unsupported as e:
                raise AnalysisError("selector model: absint cannot interpret %s._validate: %s" % (name, e))
            n += 1
            objs = sel.attrs["_objects"]
            in_force = kind in ("known", "replaced-in")
            what = {"none": "None", "known": "an object in force", "replaced-in": "the object put in by objects[1] = z", "stale-name": "the object names still mentions but _objects no longer holds",
                    "unknown": "an unknown object"}[kind] + (" (as a list item)" if q == LSEL and kind != "none" else "")
            desc = "%s(objects from a %s, allow_None=%s, check_on_set=%s) <- %s" % (name, state.replace("-", " "), allow_none, check, what)
            if kind == "none":
                want = allow_none or (not check and q == SEL)
            elif check:
                want = in_force
            else:
                want = True
            got = o.kind == "return"
            if kind == "none" and not check:
                continue        # None with check_on_set=False: appended or rejected by type, not specified here
            if got != want:
                problems.append((desc, "%s, specification %s" % ("accepted" if got else "rejected", "accept" if want else "reject")))
                continue
            if not isinstance(objs, list):
                raise AnalysisError("selector model: _objects is no longer known after %s" % desc)
            if check and len(objs) != n0:
                problems.append((desc, "validation with check_on_set changes the objects in force (%d -> %d)" % (n0, len(objs))))
            if not check and got and kind in ("unknown", "stale-name"):
                added = [e for e in objs[n0:]]
                tgt = vals[kind]
                if len(added) != 1 or added[0] is not tgt:
                    problems.append((desc, "the unknown value is appended %d time(s) to the objects in force" % len(added)))
    return n, problems


def report(ctx, rule):
    memo = ctx.__dict__.setdefault('_model_memo', {})
    if 'selector_model' not in memo:
        memo['selector_model'] = model(ctx)
    n, problems = memo['selector_model']
    f = ctx.hier.resolve(SEL, "_validate_value")
    ctx.abstract_cases += n
    if not problems:
        ctx.ok(rule, f, f.node, "selector model, %d abstract cases: accepted iff None with allow_None or one of the objects in force (_objects); unknown values appended once without check_on_set" % n)
    else:
        desc, what = problems[0]
        ctx.fail(rule, f, f.node, "selector model: %s: %s (%d disagreeing case(s))" % (desc, what, len(problems)), key="%s::selector-model" % SEL, input=desc)


def compute_default_model(ctx):
    """compute_default() interpreted for Selector and ListSelector with objects declared up front, default None and a
    compute_default_fn whose result is an object already declared / one that is not (ListSelector: a list of both),
    with and without check_on_set.

    Specification: afterwards the default is the computed value and every computed item is one of the objects in force,
    exactly once (a default outside the objects is a state the parameter itself would reject on re-assignment, and
    one the generated schema's enum does not contain)."""
    problems, n = [], 0
    for q, check, computed_kind in itertools.product((SEL, LSEL), (True, False), ("known", "unknown")):
        x, y, u = Obj("x"), Obj("y"), Obj("computed_unknown")
        objects = [x, y]
        item = x if computed_kind == "known" else u
        computed = [x, item] if q == LSEL else item
        if q == LSEL and computed_kind == "known":
            computed = [x, y]
        fn_obj = Obj("compute_default_fn", __callable__=True)
        sel = Obj("selector", _objects=objects, names={}, allow_None=True, check_on_set=check, name="s", owner=None, default=None, compute_default_fn=fn_obj)
        sel.attrs["__cls__"] = q

        def hook(fn, args, kwargs):
            if fn == "ListProxy" and args:
                return args[0]
            if fn == "self.compute_default_fn" and not args:
                return computed
            if fn == "isinstance" and len(args) == 2:
                return isinstance(args[0], list)
            return NotImplemented
        f = ctx.hier.resolve(q, "compute_default")
        it = Interp(ctx.hier, dyn=q, inline=lambda m: True, call_hook=hook, strict_self_calls=True)
        try:
            outs = it.run_all(f, {f.params[0]: sel})
        except Unsupported as e:
            raise AnalysisError("selector model: absint cannot interpret %s.compute_default: %s" % (q.rsplit(".", 1)[-1], e))
        if len(outs) != 1 or outs[0].imprecise or outs[0].kind != "return":
            raise AnalysisError("selector model: %s.compute_default is not interpretable precisely (%s)" % (q.rsplit(".", 1)[-1], outs[0].notes[:2] if outs else "no outcome"))
        n += 1
        desc = "%s(objects=[x, y], check_on_set=%s).compute_default() with a computed default %s" % (q.rsplit(".", 1)[-1], check, "among the objects" if computed_kind == "known" else "outside the objects")
        if sel.attrs.get("default") is not computed:
            problems.append((desc, "the default is %r afterwards, specification: the computed value" % (sel.attrs.get("default"),)))
            continue
        objs = sel.attrs["_objects"]
        if not isinstance(objs, list):
            raise AnalysisError("selector model: _objects is no longer known after %s" % desc)
        for it_ in (computed if isinstance(computed, list) else [computed]):
            cnt = len([e for e in objs if e is it_])
            if cnt != 1:
                problems.append((desc, "the computed %s is among the objects in force %d time(s), specification once: the parameter holds a default it would itself reject, "
                                       "and the schema's enum does not contain it" % ("item %s" % it_.name if isinstance(computed, list) else "default", cnt)))
        if [e for e in objs[:2]] != [x, y]:
            problems.append((desc, "the declared objects change"))
    return n, problems


def report_compute_default(ctx, rule):
    n, problems = compute_default_model(ctx)
    f = ctx.hier.resolve(SEL, "compute_default")
    ctx.abstract_cases += n
    if not problems:
        ctx.ok(rule, f, f.node, "selector model, compute_default: %d abstract cases: the computed default ends up among the objects in force, once" % n)
    else:
        desc, what = problems[0]
        ctx.fail(rule, f, f.node, "selector model: %s: %s (%d disagreeing case(s))" % (desc, what, len(problems)), key="%s::compute-default-model" % SEL, input=desc)


def objects_setter_model(ctx):
    """The `objects` setter of Selector interpreted abstractly: the selector holds {'a': x, 'b': y}; it is given
    (1) the same labelled objects in another order, (2) the very same mapping content again, (3) other labels for the
    same objects, (4) a list, (5) an empty mapping.

    Specification: afterwards `names` is the mapping given (its order) -- {} for a list -- and `_objects` lists exactly
    the values given, in the order given: whatever is assigned replaces what was there, also when it compares equal
    (dict equality ignores order; list view, names, items() and pop(index) all depend on the order)."""
    problems, n = [], 0
    f = ctx.hier.property_setter(SEL, "objects")
    if f is None:
        raise AnalysisError("selector model: the setter of Selector.objects was not found")
    x, y = Obj("x"), Obj("y")
    for kind in ("reordered", "same", "renamed", "list", "empty-mapping"):
        sel = Obj("selector", _objects=[x, y], names={"a": x, "b": y}, name="s", owner=None)
        given = {"reordered": {"b": y, "a": x}, "same": {"a": x, "b": y}, "renamed": {"p": x, "q": y}, "list": [y, x], "empty-mapping": {}}[kind]

        def hook(fn, args, kwargs):
            if fn == "isinstance" and len(args) == 2:
                return isinstance(args[0], dict)
            return NotImplemented
        it = Interp(ctx.hier, dyn=SEL, inline=lambda m: False, call_hook=hook, globals={"Undefined": Obj("Undefined")})
        try:
            outs = it.run_all(f, {f.params[0]: sel, f.params[1]: given})
        except Unsupported as e:
            raise AnalysisError("selector model: absint cannot interpret the objects setter: %s" % e)
        if len(outs) != 1 or outs[0].imprecise or outs[0].kind != "return":
            raise AnalysisError("selector model: the objects setter is not interpretable precisely (%s)" % (outs[0].notes[:2] if outs else "no outcome"))
        n += 1
        desc = "s.objects = %s on a selector holding {'a': x, 'b': y}" % {"reordered": "{'b': y, 'a': x}", "same": "{'a': x, 'b': y}", "renamed": "{'p': x, 'q': y}", "list": "[y, x]", "empty-mapping": "{}"}[kind]
        want_names = list(given) if isinstance(given, dict) else []
        want_objs = list(given.values()) if isinstance(given, dict) else list(given)
        names, objs = sel.attrs.get("names"), sel.attrs.get("_objects")
        if not isinstance(names, dict) or list(names) != want_names:
            problems.append((desc, "names is %s afterwards, specification %s (in that order)" % (list(names) if isinstance(names, dict) else names, want_names)))
        if not isinstance(objs, list) or len(objs) != len(want_objs) or any(a is not b for a, b in zip(objs, want_objs)):
            problems.append((desc, "the objects in force are %s afterwards, specification %s: the replacement is dropped, so the list view, items() and pop(index) keep the old order while "
                                   "watchers were told the new one" % ([getattr(o, "name", o) for o in objs] if isinstance(objs, list) else objs, [o.name for o in want_objs])))
    return n, problems


def report_objects_setter(ctx, rule):
    n, problems = objects_setter_model(ctx)
    f = ctx.hier.property_setter(SEL, "objects")
    ctx.abstract_cases += n
    if not problems:
        ctx.ok(rule, f, f.node, "selector model, objects setter: %d abstract cases: names and the objects in force are exactly what was assigned, in that order" % n)
    else:
        desc, what = problems[0]
        ctx.fail(rule, f, f.node, "selector model: %s: %s (%d disagreeing case(s))" % (desc, what, len(problems)), key="%s::objects-setter-model" % SEL, input=desc)


def named_objs_model(ctx):
    """param._utils._named_objs -- what Selector.get_range() returns -- interpreted abstractly for objects [x, y, z] and the
    declared labels {'': x, 'b': y} (z has none; its own `name` attribute is 'zed'); also with an unhashable labelled
    object.  Specification: every object that has a declared label is listed under exactly that label -- an empty or
    otherwise falsy label ('', 0) is a label like any other -- and an unlabelled object under its name."""
    f = ctx.repo.func("param._utils._named_objs")
    problems, n = [], 0
    for falsy in ("", 0):
        for unhashable_x in (False,):
            x, y, z = Obj("x", __unhashable__=unhashable_x), Obj("y"), Obj("z", name="zed")
            names = {falsy: x, "b": y}

            def hook(fn, args, kwargs):
                if fn == "_hashable" and len(args) == 1:
                    if isinstance(args[0], Obj) and args[0].attrs.get("__unhashable__"):
                        from engine.absint import _Raise
                        raise _Raise("TypeError")
                    return args[0]
                if fn == "hasattr" and len(args) == 2:
                    return isinstance(args[0], Obj) and args[1] in args[0].attrs and not args[1].startswith("__")
                if fn == "str" and len(args) == 1:
                    return "str(%s)" % getattr(args[0], "name", args[0])
                return NotImplemented
            it = Interp(ctx.hier, call_hook=hook)
            try:
                outs = it.run_all(f, {"objlist": [x, y, z], "namesdict": dict(names)})
            except Unsupported as e:
                raise AnalysisError("selector model: absint cannot interpret _named_objs: %s" % e)
            if len(outs) != 1 or outs[0].imprecise or outs[0].kind != "return" or not isinstance(outs[0].value, dict):
                raise AnalysisError("selector model: _named_objs is not interpretable precisely (%s)" % (outs[0].notes[:2] if outs else "no outcome"))
            n += 1
            got = outs[0].value
            want = [(falsy, x), ("b", y), ("zed", z)]
            if [(k, v) for k, v in got.items()] != want and not (len(got) == 3 and all(got.get(k) is v for k, v in want)):
                problems.append(("objects [x, y, z] declared with the labels {%r: x, 'b': y}%s" % (falsy, " (x unhashable)" if unhashable_x else ""),
                                 "get_range() lists %s, specification %s: a falsy label is replaced by a derived name, so get_range() disagrees with names / items()" % (
                                     [(k, getattr(v, "name", v)) for k, v in got.items()], [(k, v.name) for k, v in want])))
    return n, problems


def report_named_objs(ctx, rule):
    n, problems = named_objs_model(ctx)
    f = ctx.repo.func("param._utils._named_objs")
    ctx.abstract_cases += n
    if not problems:
        ctx.ok(rule, f, f.node, "selector model, _named_objs: %d cases: every labelled object is listed under its label (falsy labels included), unlabelled ones under their name" % n)
    else:
        desc, what = problems[0]
        ctx.fail(rule, f, f.node, "selector model: %s: %s (%d disagreeing case(s))" % (desc, what, len(problems)), key=f.qualname + "::named-objs-model", input=desc)


def redeclaration_model(ctx, rule):
    """A Selector re-declared in a subclass WITHOUT objects (Selector(doc=...)): the constructor hands Undefined to the
    `objects` setter.  The objects themselves stay Undefined and are inherited from the ancestor; the labels must be
    inherited with them -- a setter that stores names = {} makes the slot count as declared, so the subclass has the
    ancestor's objects without their labels (items(), get_range() and `objects[label]` disagree with the ancestor's)."""
    f = ctx.hier.property_setter(SEL, "objects")
    if f is None:
        raise AnalysisError("selector model: the setter of Selector.objects was not found")
    UNDEF = Obj("Undefined")
    sel = Obj("selector_being_constructed", name=None, owner=None)

    def hook(fn, args, kwargs):
        if fn == "isinstance" and len(args) == 2:
            return isinstance(args[0], dict)
        return NotImplemented
    it = Interp(ctx.hier, dyn=SEL, inline=lambda m: False, call_hook=hook, globals={"Undefined": UNDEF})
    try:
        outs = it.run_all(f, {f.params[0]: sel, f.params[1]: UNDEF})
    except Unsupported as e:
        raise AnalysisError("selector model: absint cannot interpret the objects setter: %s" % e)
    if len(outs) != 1 or outs[0].imprecise or outs[0].kind != "return":
        raise AnalysisError("selector model: the objects setter is not interpretable precisely on Undefined (%s)" % (outs[0].notes[:2] if outs else "no outcome"))
    ctx.abstract_cases += 1
    names, objs = sel.attrs.get("names", UNDEF), sel.attrs.get("_objects", UNDEF)
    if objs is UNDEF and names is not UNDEF:
        ctx.fail(rule, f, f.node, "a Selector re-declared without objects keeps `_objects` Undefined (inherited from the ancestor) but stores names = %r: the labels of the inherited objects are "
                                  "lost on the subclass -- items(), get_range() and objects[label] no longer agree with the objects" % (names,),
                 key="%s::names-materialised-on-redeclaration" % SEL, input="class A: s = Selector(objects={'a': 1, 'b': 2}); class B(A): s = Selector(doc='x') -> B.param.s.names == {} with objects [1, 2]")
        return
    # re-declared FROM A LIST (while still unbound: name is None): the new objects come without labels -- the labels of the
    # ancestor's objects must not be inherited next to them
    a, b = Obj("object_a"), Obj("object_b")
    for bound in (False, True):
        sel2 = Obj("selector_given_a_list", name="s" if bound else None, owner=Obj("Cls") if bound else None)

        def hook2(fn, args, kwargs):
            if fn == "isinstance" and len(args) == 2:
                return isinstance(args[0], dict)
            if fn == "getattr" and len(args) in (2, 3) and args[0] is sel2 and isinstance(args[1], str):
                return sel2.attrs.get(args[1], args[2] if len(args) == 3 else None)
            return NotImplemented
        it2 = Interp(ctx.hier, dyn=SEL, inline=lambda m: False, call_hook=hook2, globals={"Undefined": UNDEF})
        try:
            outs = it2.run_all(f, {f.params[0]: sel2, f.params[1]: [a, b]})
        except Unsupported as e:
            raise AnalysisError("selector model: absint cannot interpret the objects setter: %s" % e)
        if len(outs) != 1 or outs[0].imprecise or outs[0].kind != "return":
            raise AnalysisError("selector model: the objects setter is not interpretable precisely on a list (%s)" % (outs[0].notes[:2] if outs else "no outcome"))
        ctx.abstract_cases += 1
        names = sel2.attrs.get("names", UNDEF)
        if not (isinstance(names, dict) and not names):
            ctx.fail(rule, f, f.node, "a Selector given a plain list of objects %s stores names = %r, specification an empty mapping of its own: %s" % (
                "after it was bound to a class" if bound else "while it is being declared (a re-declaration in a subclass)", names,
                "left Undefined, the slot is filled from the ancestor -- the subclass has its own objects with the ANCESTOR's labels: keys(), items() and objects[label] describe the parent's "
                "objects, the list view and validation the new ones" if names is UNDEF else "the labels do not describe the new objects"),
                key="%s::names-inherited-next-to-a-new-list" % SEL, input="class A: s = Selector(objects={'one': 1, 'two': 2}); class B(A): s = Selector(objects=[3, 4]) -> B.param.s.names == {'one': 1, 'two': 2}")
            return
    ctx.ok(rule, f, f.node, "a Selector re-declared without objects leaves objects and labels to be inherited together; one given a plain list starts with an empty label mapping of its own")


def update_state_model(ctx, rule):
    """Selector._update_state (the hook __param_inheritance runs AFTER merging the inherited slots and BEFORE re-validating
    the merged default) interpreted on check_on_set True / False x a dynamic default function present / absent, with a
    merged default that is not among the objects.

    Specification: the default is appended to the objects only when check_on_set is False; with check_on_set True the
    objects stay as declared, so the re-validation refuses the class (an inherited default outside the narrowed objects)."""
    f = ctx.hier.resolve(SEL, "_update_state")
    problems, n = [], 0
    for check_on_set, has_fn in [(c, h) for c in (True, False) for h in (True, False)]:
        default = Obj("merged_default_outside_the_objects")
        sel = Obj("selector", check_on_set=check_on_set, default=default, compute_default_fn=(Obj("default_function", __callable__=True) if has_fn else None),
                  _objects=[Obj("object_1"), Obj("object_2")], names={})
        ensured = []

        def hook(fn, args, kwargs):
            if fn.endswith("._ensure_value_is_in_objects") and len(args) == 1:
                ensured.append(args[0])
                return None
            if fn == "callable" and len(args) == 1:
                return isinstance(args[0], Obj) and bool(args[0].attrs.get("__callable__"))
            return NotImplemented
        it = Interp(ctx.hier, dyn=SEL, inline=lambda m: False, call_hook=hook)
        try:
            outs = it.run_all(f, {f.params[0]: sel})
        except Unsupported as e:
            raise AnalysisError("selector model: absint cannot interpret Selector._update_state: %s" % e)
        if len(outs) != 1 or outs[0].imprecise or outs[0].kind != "return":
            raise AnalysisError("selector model: Selector._update_state is not interpretable precisely (%s)" % (outs[0].notes[:2] if outs else "no outcome"))
        n += 1
        want = not check_on_set
        if bool(ensured) != want:
            problems.append("with check_on_set=%s%s the merged default is %s the objects, specification %s: %s" % (
                check_on_set, " and a dynamic default function" if has_fn else "", "appended to" if ensured else "not appended to", "appended" if want else "left out",
                "the re-validation that follows can no longer refuse a class whose inherited default lies outside the objects it declares" if ensured else "an unchecked selector loses its default"))
    ctx.abstract_cases += n
    if problems:
        ctx.fail(rule, f, f.node, "selector model (_update_state): %s (%d disagreeing case(s))" % (problems[0], len(problems)), key="%s::update-state" % SEL,
                 input="class A: s = Selector(objects=[1, 2, 3], default=3, compute_default_fn=f); class B(A): s = Selector(objects=[1, 2]) -> B is created with objects [1, 2, 3]")
    else:
        ctx.ok(rule, f, f.node, "selector model: _update_state extends the objects with the merged default only when check_on_set is False (%d cases)" % n)


def get_range_model(ctx, rule):
    """Selector.get_range interpreted TWICE on one Selector, with a length-preserving in-place mutation of its objects in
    between (objects[1] = n on a list-declared selector; objects['b'] = n on a dict-declared one -- what the ListProxy
    mutators do: same containers, same lengths).  Specification: the second answer describes the objects as they are now."""
    f = ctx.hier.resolve(SEL, "get_range")
    problems, n = [], 0
    for named in (False, True):
        x, y, z, new = Obj("x"), Obj("y"), Obj("z"), Obj("n")
        objs = [x, y, z]
        names = {"a": x, "b": y, "c": z} if named else {}
        sel = Obj("selector", **{s_: None for s_ in ctx.hier.all_slots(SEL)})
        sel.attrs.update(_objects=objs, names=names)

        def hook(fn, args, kwargs):
            if fn == "_named_objs" and args:
                o = args[0]
                nm = args[1] if len(args) > 1 else kwargs.get("names")
                if nm:
                    return dict(nm)
                return {getattr(v, "name", str(v)): v for v in o}
            if fn == "id" and len(args) == 1 and isinstance(args[0], (list, dict)):
                return ("id", id(args[0]))
            if fn == "len" and len(args) == 1 and isinstance(args[0], (list, dict)):
                return len(args[0])
            return NotImplemented
        results = []
        for step in (1, 2):
            it = Interp(ctx.hier, dyn=SEL, inline=lambda m: False, call_hook=hook)
            try:
                outs = it.run_all(f, {f.params[0]: sel})
            except Unsupported as e:
                raise AnalysisError("selector model: absint cannot interpret Selector.get_range: %s" % e)
            if len(outs) != 1 or outs[0].imprecise or outs[0].kind != "return" or not isinstance(outs[0].value, dict):
                raise AnalysisError("selector model: Selector.get_range is not interpretable precisely (%s)" % (outs[0].notes[:2] if outs else "no outcome"))
            results.append(dict(outs[0].value))
            objs[1] = new                    # the same list, the same length
            if named:
                names["b"] = new
        n += 2
        if not any(v is new for v in results[1].values()) or any(v is y for v in results[1].values()):
            problems.append("%s selector: get_range() asked again after objects[%s] = n still answers %s: the range describes the old objects while the list view, the labels and validation follow "
                            "the new ones" % ("dict-declared" if named else "list-declared", "'b'" if named else "1", sorted(getattr(v, "name", v) for v in results[1].values())))
    ctx.abstract_cases += n
    if problems:
        ctx.fail(rule, f, f.node, "selector model (get_range): %s (%d case(s))" % (problems[0], len(problems)), key="%s::get-range-stale" % SEL, input="s.get_range(); s.objects[1] = n; s.get_range()")
    else:
        ctx.ok(rule, f, f.node, "selector model: get_range describes the objects as they are at every call (%d calls)" % n)
