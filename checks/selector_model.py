"""Selector membership model (C01 / C18): the validators of Selector and ListSelector
interpreted abstractly on small stores.

Stores: `_objects` (the collection in force: the list view, get_range() and the
objects setter all go through it) and `names`.  Three states: declared from a
list (no names), declared from a dict (names agree), and a dict-declared
selector after a list-style replacement (names still mention an object that is
no longer in `_objects` -- reachable through the deprecated list-style API).

Specification: with check_on_set, a value is accepted iff it is None and
allow_None, or it is one of the objects in force (`_objects`); a ListSelector
accepts a list iff every item is; nothing is appended.  Without check_on_set
an unknown value is accepted and appended to `_objects` exactly once.
"""
from __future__ import annotations

import itertools

from engine.absint import Interp, Obj, Unsupported
from engine.loader import AnalysisError

SEL = "param.parameters.Selector"
LSEL = "param.parameters.ListSelector"


def run_case(ctx, q, state, allow_none, check, kind):
    x, y, z, u = Obj("x"), Obj("y"), Obj("z"), Obj("unknown")
    objects = [x, y]
    names = {}
    if state == "dict":
        names = {"a": x, "b": y}
    elif state == "dict-after-list-style-replacement":
        names = {"a": x, "b": y}
        objects = [x, z]            # objects[1] = z
    sel = Obj("selector", _objects=objects, names=names, allow_None=allow_none, check_on_set=check, name="s", owner=None)
    sel.attrs["__cls__"] = q
    vals = {"none": None, "known": objects[0], "replaced-in": objects[1], "stale-name": y, "unknown": u}
    if q == LSEL:
        base = vals[kind] if kind != "none" else None
        val = None if kind == "none" else [objects[0], base]
    else:
        val = vals[kind]

    def hook(fn, args, kwargs):
        if fn == "ListProxy" and args:
            return args[0]
        if fn == "isinstance" and len(args) == 2:
            return isinstance(args[0], list)
        if fn in ("str", "repr"):
            return "item"
        if fn == "_validate_error_prefix":
            return "Selector parameter"
        if fn.endswith(".join"):
            return "items"
        return NotImplemented
    f = ctx.hier.resolve(q, "_validate")
    it = Interp(ctx.hier, dyn=q, inline=lambda m: True, call_hook=hook, strict_self_calls=True)
    n0 = len(objects)
    outs = it.run_all(f, {f.params[0]: sel, f.params[1]: val})
    kinds = {o.kind for o in outs}
    if len(kinds) != 1:
        raise AnalysisError("selector model: %s._validate has several outcomes for one abstract input (%s)" % (q.rsplit(".", 1)[-1], [o.notes[:1] for o in outs]))
    return outs[0], sel, n0, vals, val


def model(ctx):
    problems, n = [], 0
    for q in (SEL, LSEL):
        name = q.rsplit(".", 1)[-1]
        for state, allow_none, check, kind in itertools.product(["list", "dict", "dict-after-list-style-replacement"], [True, False], [True, False],
                                                                ["none", "known", "replaced-in", "stale-name", "unknown"]):
            if kind == "stale-name" and state != "dict-after-list-style-replacement":
                continue
            try:
                o, sel, n0, vals, val = run_case(ctx, q, state, allow_none, check, kind)
            except Unsupported as e:
                raise AnalysisError("selector model: absint cannot interpret %s._validate: %s" % (name, e))
            n += 1
            objs = sel.attrs["_objects"]
            in_force = kind in ("known", "replaced-in")
            what = {"none": "None", "known": "an object in force", "replaced-in": "the object put in by objects[1] = z", "stale-name": "the object names still mentions but _objects no longer holds",
                    "unknown": "an unknown object"}[kind] + (" (as a list item)" if q == LSEL and kind != "none" else "")
            desc = "%s(objects from a %s, allow_None=%s, check_on_set=%s) <- %s" % (name, state.replace("-", " "), allow_none, check, what)
            if kind == "none":
                want = allow_none or (not check and q == SEL)
            elif check:
                want = in_force
            else:
                want = True
            got = o.kind == "return"
            if kind == "none" and not check:
                continue        # None with check_on_set=False: appended or rejected by type, not specified here
            if got != want:
                problems.append((desc, "%s, specification %s" % ("accepted" if got else "rejected", "accept" if want else "reject")))
                continue
            if not isinstance(objs, list):
                raise AnalysisError("selector model: _objects is no longer known after %s" % desc)
            if check and len(objs) != n0:
                problems.append((desc, "validation with check_on_set changes the objects in force (%d -> %d)" % (n0, len(objs))))
            if not check and got and kind in ("unknown", "stale-name"):
                added = [e for e in objs[n0:]]
                tgt = vals[kind]
                if len(added) != 1 or added[0] is not tgt:
                    problems.append((desc, "the unknown value is appended %d time(s) to the objects in force" % len(added)))
    return n, problems


def report(ctx, rule):
    memo = ctx.__dict__.setdefault('_model_memo', {})
    if 'selector_model' not in memo:
        memo['selector_model'] = model(ctx)
    n, problems = memo['selector_model']
    f = ctx.hier.resolve(SEL, "_validate_value")
    ctx.abstract_cases += n
    if not problems:
        ctx.ok(rule, f, f.node, "selector model, %d abstract cases: accepted iff None with allow_None or one of the objects in force (_objects); unknown values appended once without check_on_set" % n)
    else:
        desc, what = problems[0]
        ctx.fail(rule, f, f.node, "selector model: %s: %s (%d disagreeing case(s))" % (desc, what, len(problems)), key="%s::selector-model" % SEL, input=desc)
