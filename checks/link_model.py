"""Link model (C08 / C10): Parameters._update_ref with _setup_refs interpreted abstractly.

State before: the instance mirrors two references -- x <- rx (depends on S.a)
and y <- ry (depends on S.b and T.c) -- with the source watchers that state
implies (one on S for x and y, one on T for y), optionally a pending
asynchronous task registered for the parameter being updated and one for
another parameter.

Operation: _update_ref(name, ref) for name in {x, y, z (not linked so far)}
and ref in {None, a reference depending on U.d, a reference depending on S.a,
a reference without dependencies (an asynchronous function)}.

Specification:
* every watcher installed for the old links is unwatched exactly once, on the
  object it was installed on;
* the pending task of `name`, if any, is cancelled and deregistered; the task
  of another parameter is left alone;
* refs afterwards is the old table with `name` replaced / removed;
* ref_watchers afterwards holds exactly one watcher per source object that a
  reference of the NEW table depends on, watching exactly the dependency names
  on that object, labelled with the linked parameters fed by it -- no watcher
  for a source nothing depends on any more.
"""
from __future__ import annotations

import itertools

from engine.absint import Interp, Obj, Unsupported
from engine.loader import AnalysisError

P = "param.parameterized."


def run_case(ctx, f, name, refmode, task_self, task_other):
    S, T, U = Obj("source_S"), Obj("source_T"), Obj("source_U")
    for o in (S, T, U):
        o.attrs["param"] = Obj("param_of_" + o.name, owner_obj=o)
    dep = lambda owner, n: Obj("dep_%s_%s" % (owner.name[-1], n), owner=owner, name=n, __kind__="Parameter")
    rx_, ry_ = Obj("ref_of_x"), Obj("ref_of_y")
    # v mirrors a reference that depends on no parameter (a coroutine function, an async generator): no watcher serves it
    rv_ = Obj("async_ref_of_v_without_dependencies")
    deps_of = {id(rx_): [dep(S, "a")], id(ry_): [dep(S, "b"), dep(T, "c")], id(rv_): []}
    new = None
    if refmode == "new-U":
        new = Obj("new_ref_on_U")
        deps_of[id(new)] = [dep(U, "d")]
    elif refmode == "new-S":
        new = Obj("new_ref_on_S")
        deps_of[id(new)] = [dep(S, "a")]
    elif refmode == "new-nodeps":
        new = Obj("new_async_ref")
        deps_of[id(new)] = []
    wS = Obj("old_watcher_on_S", inst=S, cls=Obj("cls_of_S"))
    wT = Obj("old_watcher_on_T", inst=T, cls=Obj("cls_of_T"))
    old_refs = {"x": rx_, "y": ry_, "v": rv_}
    tasks = {}
    t_self, t_other = Obj("pending_task_of_" + name), Obj("pending_task_of_other")
    log = []
    t_self.attrs["cancel"] = "<cancel>"
    if task_self:
        tasks[name] = t_self
    if task_other:
        tasks["w"] = t_other
    private = Obj("private", refs=dict(old_refs), ref_watchers=[(("x", "y"), wS), (("y",), wT)], async_refs=tasks)
    inst = Obj("instance", _param__private=private)
    pobjs = {k: Obj("P_" + k, nested_refs=False) for k in ("x", "y", "z", "v")}
    ns = Obj("ns", self=inst, __getitem__=dict(pobjs), __contains__=list(pobjs))
    made = []

    def hook(fn, args, kwargs):
        if fn == "resolve_ref" and args:
            if isinstance(args[0], Obj) and id(args[0]) in deps_of:
                return list(deps_of[id(args[0])])
            if args[0] is None:
                return []          # resolve_ref(None) finds nothing
            raise Unsupported("resolve_ref of %r" % (args[0],))
        if fn.endswith(".param.unwatch") and len(args) == 1:
            log.append(("unwatch", fn.split(".")[0], args[0]))
            return None
        if fn.endswith(".param._watch") or fn.endswith(".param.watch"):
            names = args[1] if len(args) > 1 else kwargs.get("parameter_names")
            w = Obj("new_watcher_%d" % len(made), names=list(names) if isinstance(names, (list, tuple)) else names, fn=args[0] if args else None)
            made.append(w)
            log.append(("watch", w))
            return w
        if fn.endswith(".cancel") and not args:
            log.append(("cancel", fn))
            return None
        if fn == "isinstance" and len(args) == 2:
            return isinstance(args[0], Obj) and args[0].attrs.get("__kind__") == "Parameter"
        if fn == "extract_dependencies":
            return []
        return NotImplemented
    it = Interp(ctx.hier, dyn=P + "Parameters", inline=lambda m: True, call_hook=hook, globals={"Parameter": "<Parameter>"}, strict_self_calls=True)
    # which object did an unwatch / _watch go to?  evaluate the receiver explicitly
    recv = {}
    orig_eval_call = it.eval_call

    def eval_call(c, env, f_):
        import ast as _ast
        if isinstance(c.func, _ast.Attribute) and c.func.attr in ("unwatch", "_watch", "watch", "cancel"):
            try:
                base = it.eval(c.func.value, env, f_)
            except Exception:
                base = None
            recv[len(log)] = base
        return orig_eval_call(c, env, f_)
    it.eval_call = eval_call
    outs = it.run_all(f, {"self_": ns, "name": name, "ref": new})
    if len(outs) != 1 or outs[0].imprecise:
        raise AnalysisError("link model: Parameters._update_ref is not interpretable precisely (%s)" % (outs[0].notes[:2] if outs else "no outcome"))
    return outs[0], private, log, recv, dict(S=S, T=T, U=U), (wS, wT), old_refs, new, deps_of, (t_self, t_other)


def model(ctx):
    f = ctx.repo.func(P + "Parameters._update_ref")
    problems = {"C08": [], "C10": []}
    n = 0
    for name, refmode, task_self, task_other in itertools.product(["x", "y", "z", "v"], ["none", "new-U", "new-S", "new-nodeps"], [False, True], [False, True]):
        try:
            o, private, log, recv, src, (wS, wT), old_refs, new, deps_of, (t_self, t_other) = run_case(ctx, f, name, refmode, task_self, task_other)
        except Unsupported as e:
            raise AnalysisError("link model: absint cannot interpret Parameters._update_ref / _setup_refs: %s" % e)
        n += 1
        desc = "_update_ref(%r, %s)%s" % (name, {"none": "None", "new-U": "<reference on U.d>", "new-S": "<reference on S.a>", "new-nodeps": "<asynchronous reference>"}[refmode],
                                           " with a pending task for it" if task_self else "")
        if o.kind != "return":
            problems["C08"].append("%s raises %s" % (desc, getattr(o, "what", "?")))
            continue
        # ---- old watchers
        unw = [(i, e) for i, e in enumerate(log) if e[0] == "unwatch"]
        for w, owner in ((wS, src["S"]), (wT, src["T"])):
            mine = [(i, e) for i, e in unw if e[2] is w]
            if len(mine) != 1:
                problems["C08"].append("%s: the watcher installed on %s for the old links is unwatched %d time(s): the old source keeps a watcher on the parameter's behalf" % (desc, owner.name, len(mine)))
            else:
                r = recv.get(mine[0][0])
                if not (isinstance(r, Obj) and r.attrs.get("owner_obj") is owner):
                    problems["C08"].append("%s: the watcher of %s is unwatched on another object (%r)" % (desc, owner.name, r))
        # ---- tasks
        cancels = [e for e in log if e[0] == "cancel"]
        tasks = private.attrs["async_refs"]
        if task_self and (len(cancels) != 1 or name in tasks):
            problems["C10"].append("%s: the pending task of `%s` is cancelled %d time(s) and %s registered: the superseded evaluation can still deliver its result" % (
                desc, name, len(cancels), "still" if name in tasks else "no longer"))
        if not task_self and cancels:
            problems["C10"].append("%s: a task is cancelled although `%s` has none" % (desc, name))
        if task_other and tasks.get("w") is not t_other:
            problems["C10"].append("%s: the pending task of another parameter is deregistered" % desc)
        # ---- refs table
        want_refs = dict(old_refs)
        if new is None:
            want_refs.pop(name, None)
        else:
            want_refs[name] = new
        refs = private.attrs["refs"]
        if not isinstance(refs, dict) or set(refs) != set(want_refs) or any(refs[k] is not want_refs[k] for k in want_refs):
            problems["C08"].append("%s: refs is %s afterwards, specification %s" % (desc, sorted(refs) if isinstance(refs, dict) else refs, sorted(want_refs)))
            if isinstance(refs, dict) and name in old_refs and refs.get(name) is old_refs[name]:
                problems["C10"].append("%s: the superseded reference of `%s` is still registered afterwards: the next sync (any change of a sibling link's source) evaluates it again and its "
                                       "result overwrites the plain value -- the reference was not cancelled for good" % (desc, name))
            continue
        # ---- new watchers: one per source of the new table
        want = {}
        for pname, r in want_refs.items():
            for d in deps_of[id(r)]:
                owner = d.attrs["owner"]
                want.setdefault(id(owner), [owner, set(), []])
                want[id(owner)][1].add(d.attrs["name"])
                want[id(owner)][2].append(pname)
        rw = private.attrs["ref_watchers"]
        if not isinstance(rw, list):
            raise AnalysisError("link model: ref_watchers is no longer a list the model can read (%r)" % (rw,))
        got = {}
        for i, e in enumerate(log):
            if e[0] == "watch":
                r = recv.get(i)
                owner = r.attrs.get("owner_obj") if isinstance(r, Obj) else None
                if owner is None:
                    raise AnalysisError("link model: a source watcher is installed on something the model cannot identify (%r)" % (r,))
                got.setdefault(id(owner), []).append(e[1])
        for oid, (owner, names, pnames) in want.items():
            ws = got.get(oid, [])
            if len(ws) != 1:
                problems["C08"].append("%s: %d watcher(s) installed on %s, specification 1 (the new table depends on %s.%s)" % (desc, len(ws), owner.name, owner.name, "/".join(sorted(names))))
                continue
            if not isinstance(ws[0].attrs["names"], list) or set(ws[0].attrs["names"]) != names:
                problems["C08"].append("%s: the watcher on %s watches %s, specification %s" % (desc, owner.name, ws[0].attrs["names"], sorted(names)))
            entry = [t for t in rw if isinstance(t, tuple) and len(t) == 2 and t[1] is ws[0]]
            if len(entry) != 1:
                problems["C08"].append("%s: the watcher installed on %s is not recorded in ref_watchers (it can never be removed again)" % (desc, owner.name))
            elif sorted(entry[0][0]) != sorted(pnames):
                problems["C08"].append("%s: the watcher on %s is recorded for %s, specification %s" % (desc, owner.name, sorted(entry[0][0]), sorted(pnames)))
        for oid, ws in got.items():
            if oid not in want:
                problems["C08"].append("%s: a watcher is installed on %s although no reference of the new table depends on it" % (desc, [s_.name for s_ in src.values() if id(s_) == oid]))
        if len(rw) != len(want):
            problems["C08"].append("%s: ref_watchers holds %d entries afterwards, specification %d" % (desc, len(rw), len(want)))
    return n, problems


def report(ctx, prop, rule):
    memo = ctx.__dict__.setdefault('_model_memo', {})
    if 'link_model' not in memo:
        memo['link_model'] = model(ctx)
    n, problems = memo['link_model']
    f = ctx.repo.func(P + "Parameters._update_ref")
    ctx.abstract_cases += n
    bad = problems[prop]
    if not bad:
        ctx.ok(rule, f, f.node, "link model, %d abstract cases (parameter x new reference / None x pending tasks): old watchers removed, tasks cancelled, refs and source watchers rebuilt as specified" % n)
    else:
        ctx.fail(rule, f, f.node, "link model: %s (%d disagreeing observation(s))" % (bad[0], len(bad)), key="%s::link-model::%s" % (f.qualname, prop))


def resolve_model(ctx):
    """Parameters._resolve_ref interpreted abstractly: what is assigned (a plain value / a reference whose sources are all
    ordinary, all constant or mixed / a reference whose evaluation is skipped / a coroutine function / an async generator).

    Specification: a value without dependencies that is not asynchronous comes back as a plain value (no reference); anything
    else comes back AS a reference -- the object assigned, with every dependency found -- whatever kind of parameter the
    sources are (a constant source still changes, under edit_constant or by following its own link); the value is the
    resolved one (Undefined when evaluation is skipped, None while an asynchronous evaluation is pending, which is
    scheduled exactly once)."""
    from engine.absint import _Raise
    f = ctx.repo.func(P + "Parameters._resolve_ref")
    problems, n = [], 0
    UNDEF = Obj("Undefined")
    for kind in ("plain", "ref-ordinary", "ref-constant", "ref-mixed", "ref-skip", "coroutine", "asyncgen", "coroutine-with-deps"):
        given = Obj("assigned_object")
        resolved = Obj("resolved_value")
        mk = lambda nm, const: Obj(nm, constant=const, readonly=False, name=nm, owner=Obj("source_of_" + nm))
        deps = {"plain": [], "ref-ordinary": [mk("d1", False), mk("d2", False)], "ref-constant": [mk("d1", True), mk("d2", True)], "ref-mixed": [mk("d1", True), mk("d2", False)],
                "ref-skip": [mk("d1", False)], "coroutine": [], "asyncgen": [], "coroutine-with-deps": [mk("d1", False)]}[kind]
        scheduled = []

        def hook(fn, args, kwargs, kind=kind, deps=deps):
            if fn == "inspect.isgeneratorfunction":
                return kind == "asyncgen"
            if fn == "iscoroutinefunction":
                return kind.startswith("coroutine")
            if fn == "resolve_ref":
                return list(deps)
            if fn == "resolve_value":
                if kind == "ref-skip":
                    raise _Raise("Skip")
                return resolved if args and args[0] is given else TOP_
            if fn == "partial":
                return Obj("partial", args=list(args))
            if fn == "async_executor":
                scheduled.append(args[0] if args else None)
                return None
            return NotImplemented
        TOP_ = Obj("unexpected")
        it = Interp(ctx.hier, dyn=P + "Parameters", inline=lambda m: False, call_hook=hook, globals={"Undefined": UNDEF})
        try:
            outs = it.run_all(f, {"self_": Obj("ns", _async_ref=Obj("bound__async_ref")), "pobj": Obj("pobj", name="x", nested_refs=False), "value": given})
        except Unsupported as e:
            raise AnalysisError("link model: absint cannot interpret Parameters._resolve_ref: %s" % e)
        if len(outs) != 1 or outs[0].imprecise or outs[0].kind != "return" or not (isinstance(outs[0].value, tuple) and len(outs[0].value) == 4):
            raise AnalysisError("link model: Parameters._resolve_ref is not interpretable precisely for %s (%s)" % (kind, outs[0].notes[:2] if outs else "no outcome"))
        n += 1
        ref, gdeps, val, is_async = outs[0].value
        asyn = kind in ("coroutine", "asyncgen", "coroutine-with-deps")
        desc = {"plain": "a plain value", "ref-ordinary": "a reference to ordinary parameters", "ref-constant": "a reference whose sources are all constant parameters",
                "ref-mixed": "a reference to a constant and an ordinary parameter", "ref-skip": "a reference whose evaluation is skipped", "coroutine": "a coroutine function",
                "asyncgen": "an asynchronous generator function", "coroutine-with-deps": "a coroutine function bound to a parameter"}[kind]
        if kind == "plain":
            if ref is not None or val is not given or is_async is not False:
                problems.append("%s comes back as (ref=%r, value=%r, async=%r), specification (None, the value, False)" % (desc, ref, val, is_async))
            continue
        if ref is not given:
            problems.append("%s comes back without the reference (ref=%r): the parameter is given the value resolved now and never follows its source%s" % (
                desc, ref, " -- a constant source still changes (edit_constant, or by following its own link)" if kind == "ref-constant" else ""))
            continue
        if not (isinstance(gdeps, list) and len(gdeps) == len(deps) and all(a is b for a, b in zip(gdeps, deps))):
            problems.append("%s: the dependencies returned are %r, specification: every dependency found (%d)" % (desc, gdeps, len(deps)))
        want_val = None if asyn else (UNDEF if kind == "ref-skip" else resolved)
        if val is not want_val:
            problems.append("%s: the value returned is %r, specification %r" % (desc, val, want_val))
        if bool(is_async) != asyn or len(scheduled) != (1 if asyn else 0):
            problems.append("%s: async=%r, %d evaluation(s) scheduled, specification async=%r, %d" % (desc, is_async, len(scheduled), asyn, 1 if asyn else 0))
    return n, problems


def report_resolve(ctx, rule):
    n, problems = resolve_model(ctx)
    f = ctx.repo.func(P + "Parameters._resolve_ref")
    ctx.abstract_cases += n
    if problems:
        ctx.fail(rule, f, f.node, "link model (_resolve_ref): %s (%d disagreeing case(s))" % (problems[0], len(problems)), key=f.qualname + "::resolve-model")
    else:
        ctx.ok(rule, f, f.node, "link model: _resolve_ref on %d kinds of assigned object: anything with dependencies or asynchronous comes back as a reference with all its dependencies, "
                                "whatever kind of parameter the sources are" % n)


def resolve_ref_model(ctx):
    """resolve_ref interpreted abstractly for a depends-decorated bound method of O used as a reference, whose string specs
    name a parameter of a sub-object and parameters of O itself, in every order; also with a keyword spec and a
    Parameter-object dependency.  Specification: every spec is resolved RELATIVE TO THE METHOD'S OWNER -- the result is
    exactly the Parameter objects named, in the order given (one watcher is installed per Parameter returned: a spec
    resolved on the wrong object means the link silently ignores changes of the right one)."""
    f = ctx.repo.func(P + "resolve_ref")
    problems, n = [], 0
    mkp = lambda owner, nme: Obj("%s.param.%s" % (owner.name, nme), owner=owner, name=nme, __kind__="Parameter")
    for specs in (["child.value", "value"], ["value", "child.value"], ["child.value", "other", "value"], ["child.grand.value", "value"]):
        O, C, G = Obj("O"), Obj("child_of_O"), Obj("grandchild")
        table = {}
        for o, names in ((O, ["value", "other"]), (C, ["value", "other"]), (G, ["value"])):
            ps = {nme: mkp(o, nme) for nme in names}
            table[id(o)] = ps
            o.attrs["param"] = Obj("namespace_of_" + o.name, __contains__=list(ps), __getitem__=dict(ps))
        O.attrs["child"] = C
        C.attrs["grand"] = G
        C.attrs["child"] = Obj("a_deeper_child_that_must_not_be_consulted")
        extra = mkp(Obj("unrelated_object"), "q")
        method = Obj("bound_depends_method", _dinfo={"dependencies": list(specs) + [extra], "kw": {"k": "other"}})

        def hook(fn, args, kwargs):
            if fn == "transform_reference" and args:
                return args[0]
            if fn == "get_method_owner":
                return O
            if fn == "hasattr" and len(args) == 2:
                return isinstance(args[0], Obj) and args[1] in args[0].attrs
            if fn == "isinstance" and len(args) == 2:
                if args[1] == "<type str>":
                    return isinstance(args[0], str)
                if args[1] in ("Parameter", "<Parameter>"):
                    return isinstance(args[0], Obj) and args[0].attrs.get("__kind__") == "Parameter"
                return False
            return NotImplemented
        it = Interp(ctx.hier, call_hook=hook, inline_module_functions=True, globals={"Parameter": "Parameter"})
        try:
            outs = it.run_all(f, {"reference": method, "recursive": False})
        except Unsupported as e:
            raise AnalysisError("link model: absint cannot interpret resolve_ref: %s" % e)
        if len(outs) != 1 or outs[0].imprecise or outs[0].kind != "return" or not isinstance(outs[0].value, list):
            raise AnalysisError("link model: resolve_ref is not interpretable precisely (%s)" % (outs[0].notes[:2] if outs else "no outcome"))
        n += 1

        def want_of(spec):
            cur = O
            parts = spec.split(".")
            for a in parts[:-1]:
                cur = cur.attrs[a]
            return table[id(cur)][parts[-1]]
        want = [want_of(sp) for sp in specs] + [extra, table[id(O)]["other"]]
        got = outs[0].value
        desc = "a method of O declared depends(%s, <a Parameter>, k='other') used as a reference" % ", ".join(repr(x) for x in specs)
        if len(got) != len(want) or any(a is not b for a, b in zip(got, want)):
            problems.append("%s resolves to %s, specification %s: the link does not follow the parameters named relative to the method's owner" % (
                desc, [getattr(x, "name", x) for x in got], [w.name for w in want]))
    return n, problems


def report_resolve_ref(ctx, rule):
    n, problems = resolve_ref_model(ctx)
    f = ctx.repo.func(P + "resolve_ref")
    ctx.abstract_cases += n
    if problems:
        ctx.fail(rule, f, f.node, "link model (resolve_ref): %s (%d disagreeing case(s))" % (problems[0], len(problems)), key=f.qualname + "::resolve-ref-model")
    else:
        ctx.ok(rule, f, f.node, "link model: the string specs of a method reference are each resolved relative to the method's owner (%d spec lists)" % n)


def relink_model(ctx, rule):
    """Parameter._relink interpreted abstractly: the parameter is currently linked to a reactive expression (an object whose
    `==` returns a truthy object whatever it is compared with) or to a plain reference, or not linked; the new reference
    is None (a plain value overrides), another reference, or the very same one.  Specification: the namespace's
    _update_ref(name, ref) is called exactly once with those arguments in every case -- it is what removes the old
    source watchers and cancels a pending asynchronous evaluation; no shortcut may decide that "nothing changes"."""
    f = ctx.repo.func(P + "Parameter._relink")
    problems, n = [], 0
    for current_kind in ("rx", "plain", "none"):
        for new_kind in ("None", "other", "same"):
            if current_kind == "none" and new_kind == "same":
                continue
            cur = None if current_kind == "none" else Obj("current_reference", __eqclass__="truthy-eq" if current_kind == "rx" else "ref-A")
            new = None if new_kind == "None" else (cur if new_kind == "same" else Obj("new_reference", __eqclass__="truthy-eq" if current_kind == "rx" else "ref-B"))
            calls = []

            def hook(fn, args, kwargs):
                if fn.endswith(".param._update_ref"):
                    calls.append(tuple(args))
                    return None
                return NotImplemented
            priv = Obj("private", refs={"x": cur} if cur is not None else {}, async_refs={})
            obj = Obj("instance", _param__private=priv, param=Obj("namespace"))
            it = Interp(ctx.hier, dyn=P + "Parameter", inline=lambda m: False, call_hook=hook)
            try:
                outs = it.run_all(f, {f.params[0]: Obj("param_x", name="x"), f.params[1]: obj, f.params[2]: "x", f.params[3]: new})
            except Unsupported as e:
                raise AnalysisError("%s: absint cannot interpret Parameter._relink: %s" % (rule, e))
            if len(outs) != 1 or outs[0].imprecise or outs[0].kind != "return":
                raise AnalysisError("%s: Parameter._relink is not interpretable precisely (%s)" % (rule, outs[0].notes[:2] if outs else "no outcome"))
            n += 1
            if len(calls) != 1 or calls[0][0] != "x" or calls[0][1] is not new:
                problems.append("currently linked to %s, new reference %s: _update_ref is called %d time(s)%s -- the old link (and whatever evaluation is pending inside it) stays in force and its "
                                "result overwrites the newer assignment" % ({"rx": "a reactive expression (== is always truthy)", "plain": "a plain reference", "none": "nothing"}[current_kind],
                                                                          new_kind, len(calls), "" if not calls else " with %r" % (calls[0],)))
    ctx.abstract_cases += n
    if problems:
        ctx.fail(rule, f, f.node, "relink model: %s (%d disagreeing case(s))" % (problems[0], len(problems)), key=f.qualname + "::relink-model")
    else:
        ctx.ok(rule, f, f.node, "relink model, %d cases: _update_ref(name, ref) is called exactly once whatever the current and the new reference are" % n)
