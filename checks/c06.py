"""C06 -- depends(watch=True) methods run exactly once per change of a dependency.

Decided in part: the registration structure.  Interpreted abstractly (checks/depends_model.py):
the metaclass code that builds the class-level table of watched methods, and
Parameters._update_deps, which installs one watcher per dependency group at
construction.  "Exactly once per change" then rests on C05 (one call per
watcher per batch) and C03 (changes-only filter), which have their own checks.
"""
from __future__ import annotations

import ast

from engine.loader import AnalysisError, norm

P = "param.parameterized."


def run(ctx):
    ctx.rule("R06.a", "depends model, registration table: the code of ParameterizedMetaclass.__init__ that computes param._depends['watch'] interpreted on 16 class shapes (B below A, optionally below A0; "
                      "m not defined / overridden with watch=True / with watch=False / undecorated; a new watched method n): exactly one entry per watched method name, B's own entry for a watching "
                      "override, the inherited one when B does not define m, none for an override that does not watch", floor=1)
    ctx.rule("R06.b", "depends model, installation: Parameters._update_deps interpreted at construction, after a sub-object was replaced, and after an unrelated change: one watcher per "
                      "(object, class, what) group covering all the group's dependencies, on_init methods called exactly once at the end, dynamic watchers recorded per method", floor=1)
    ctx.rule("R06.f", "depends model, function form: param.depends interpreted for a function with Parameter-object dependencies of two owners in interleaved order plus a keyword dependency, "
                      "watch=True: exactly one watcher per owner object, watching all of that owner's names, one shared callback", floor=1)
    ctx.rule("R06.r", "depends model, method-name recursion: _params_depended_on interpreted for a method that names another method as a dependency (in three orders): every (parameter, what) "
                      "pair and every dynamic spec the named method declares is among the result -- 'a' and 'a:bounds' are different dependencies", floor=1)
    ctx.rule("R06.g", "depends model, constant group: Parameters._watch_group interpreted for a group of constant dependencies that names a parameter twice (directly and through a method): "
                      "one watcher whose parameter list holds each name once, without change filter or callback", floor=1)
    ctx.rule("R06.s", "a copy keeps the one-watcher-per-method structure: Parameterized.__setstate__ interpreted on a saved watcher table in which one watcher is listed under two parameters "
                      "re-creates it as ONE object (batched dispatch tells watchers apart by identity) -- shared with R17.i", floor=1)
    ctx.rule("R06.q", "depends model, batch rebind: Parameters._update_deps('sub') -> _call_watcher(rebuilt watcher, second event) -> _batch_call_watchers interpreted in sequence with a batch open and the "
                      "method's watcher on the path root already queued by an earlier replacement of the same batch: the flush executes exactly one watcher on behalf of the method (once per batch), "
                      "and a watcher of another party queued alongside still runs once", floor=1)
    ctx.rule("R06.d", "depends model, class-level resolution: Parameters._spec_to_obj interpreted on a class B(A) for a Parameter inherited from A, one declared on B and a slot spec: every "
                      "dependency carries cls=B (one group, one watcher per method and object)", floor=1)
    ctx.rule("R06.m", "depends model, instance binding: _resolve_mcs_deps interpreted for class-level dependencies naming one parameter under two kinds ('p' and 'p:bounds', both orders), another "
                      "parameter and a foreign class's: one entry out per entry in, bound to the instance, each with its OWN name and kind", floor=1)
    ctx.rule("R06.t", "slot dispatch model: Parameter._trigger_event interpreted for an instance-level and a class-level Parameter x the owner's batch open / closed: the watchers of a slot "
                      "('p:bounds' dependants) go through the OWNER's namespace -- queued while its batch is open, flushed there otherwise", floor=1)
    ctx.rule("R06.x", "context-manager model (shared with R05.x): batch_call_watchers restores the batching flag BEFORE it flushes, so the depends methods the flush runs dispatch their own "
                      "assignments immediately and a failing one cannot leave the object batching", floor=1)
    ctx.rule("R06.e", "restorer model (shared with R04.r): leaving `with obj.param.update(...)` writes every saved value back in ONE update -- a depends method of several of them runs once", floor=1)
    ctx.rule("R06.h", "flush model (shared with R04.h): at the flush every queued watcher -- the callers of depends methods are such watchers -- runs once with the last event per (parameter, "
                      "kind): a slot event ('a:bounds') and a value event of the same parameter in one batch do not shadow each other", floor=1)
    ctx.rule("R06.w", "depends model, watchers per object: Parameters._update_deps(init=True) interpreted for a method with two KINDS of dependency on one parameter ('a', 'a:bounds') and for one "
                      "with a plain dependency next to the root of a path ('c', 'sub.x'): one watcher serves a method on its own object -- a batch queues watchers, so two watchers mean two calls", floor=1)
    ctx.rule("R06.c", "the construction path reaches the installation: Parameterized.__init__ calls param._update_deps(init=True) after the values were set, and the depends decorator records "
                      "watch / on_init / the dependency list in _dinfo, the only thing the metaclass reads", floor=2)
    ctx.not_decided += ["that a watcher runs its callback once per batch and only on a change (C05 / C03 decide that for every watcher, these included)",
                        "the resolution of dependency specs to parameters (_spec_to_obj, method-name recursion): the model takes the resolved lists as given",
                        "class shapes beyond the bounded ones (multiple inheritance merges use the same loop over classlist)"]
    ctx.assumptions.append("ancestors' tables were built by the same code (induction over class creation order)")
    init = ctx.repo.func(P + "Parameterized.__init__")
    calls = [c for c in ast.walk(init.node) if isinstance(c, ast.Call) and isinstance(c.func, ast.Attribute) and c.func.attr == "_update_deps"
             and any(k.arg == "init" and isinstance(k.value, ast.Constant) and k.value.value is True for k in c.keywords)]
    if calls:
        ctx.ok("R06.c", init, calls[0], "Parameterized.__init__ installs the dependency watchers (init=True)")
    else:
        ctx.fail("R06.c", init, init.node, "Parameterized.__init__ no longer installs the watchers of depends(watch=True) methods", key=init.qualname + "::no-install")
    dep = ctx.repo.func("param.depends.depends")
    keys = set()
    for n in ast.walk(dep.node):
        if isinstance(n, ast.Dict):
            keys |= {k.value for k in n.keys if isinstance(k, ast.Constant)}
        if isinstance(n, ast.Call) and norm(n.func) == "dict":
            keys |= {k.arg for k in n.keywords if k.arg}
    need = {"dependencies", "kw", "watch", "on_init"}
    if need <= keys:
        ctx.ok("R06.c", dep, dep.node, "depends records dependencies / kw / watch / on_init in _dinfo")
    else:
        ctx.fail("R06.c", dep, dep.node, "depends no longer records %s in _dinfo" % sorted(need - keys), key=dep.qualname + "::dinfo")
    from checks import depends_model
    depends_model.report_function_form(ctx, "R06.f")
    depends_model.report_constant_group(ctx, "R06.g")
    from checks.c17 import setstate_watcher_table
    setstate_watcher_table(ctx, "R06.s")
    depends_model.report_method_recursion(ctx, "R06.r")
    depends_model.report(ctx, "R06.a", "R06.b")
    depends_model.report_batch_rebind(ctx, "R06.q")
    depends_model.report_resolve_mcs(ctx, "R06.m")
    n_cl, p_cl = depends_model.class_level_resolution(ctx)
    f_cl = ctx.repo.func(P + "Parameters._spec_to_obj")
    ctx.abstract_cases += n_cl
    if p_cl:
        ctx.fail("R06.d", f_cl, f_cl.node, "depends model (class-level resolution): %s" % p_cl[0], key=f_cl.qualname + "::class-level-resolution",
                 input="class A: a = Number(); class B(A): b = Number(); @depends('a', 'b', watch=True) def m -> B().param.update(a=1, b=1) calls m twice")
    else:
        ctx.ok("R06.d", f_cl, f_cl.node, "depends model: at class level every plain dependency resolves to (inst=None, cls=the class resolved on), inherited Parameters included")
    from checks.shared import trigger_event_model
    trigger_event_model(ctx, "R06.t")
    n_w, f_w = depends_model.watchers_per_object(ctx)
    g_w = ctx.repo.func(P + "Parameters._update_deps")
    ctx.abstract_cases += n_w
    for key, msg in f_w:
        ctx.fail("R06.w", g_w, g_w.node, "depends model (watchers per object): %s" % msg, key="%s::%s" % (g_w.qualname, key),
                 input="@depends('a', 'a:bounds', watch=True) def m; with batch_call_watchers(p): p.param.a.bounds = (0, 20); p.a = 5 -> m runs twice" if key == "one-watcher-per-kind"
                 else "@depends('c', 's.x', watch=True) def m; q.param.update(c=1, s=S(x=5)) -> m runs twice")
    if not f_w:
        ctx.ok("R06.w", g_w, g_w.node, "depends model: one watcher serves a method on its own object, whatever the kinds of its dependencies")
    from checks.shared import flush_model
    flush_model(ctx, "R06.h")
    from checks import cm_model
    cm_model.report(ctx, "C06", "R06.x")
    from checks.shared import restorer_model
    restorer_model(ctx, "R06.e")
