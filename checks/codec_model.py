"""Codec model (C15): structural serialize/deserialize pairs interpreted abstractly.

(a) Tuple family (Tuple, NumericTuple, XYCoordinates, Range): for abstract
values -- (), (a, b), (a, [b, c]), (a, []), None -- serialize is interpreted,
its result is passed through what JSON transport does to containers (tuples
become lists), deserialize is interpreted on that, and the result must have
the shape of the original: a tuple whose elements are the same leaves and, for
list elements, lists of the same leaves (a list inside a tuple stays a list).

(b) The per-parameter route of the JSON serializer: deserialize_parameter_value
must return <parameter>.deserialize(loads(text)) for EVERY decoded value,
falsy ones included ([] for a zero-length Tuple, 0, '', false, {}, null).
"""
from __future__ import annotations

from engine.absint import Interp, Obj, Unsupported
from engine.loader import AnalysisError

TUPLES = ["param.parameters.Tuple", "param.parameters.NumericTuple", "param.parameters.XYCoordinates", "param.parameters.Range"]
SER = "param.serializer.JSONSerialization"


def transport(v):
    if isinstance(v, (tuple, list)):
        return [transport(x) for x in v]
    if isinstance(v, dict):
        return {k: transport(x) for k, x in v.items()}
    return v


def same_shape(a, b):
    if type(a) is not type(b):
        return False
    if isinstance(a, (tuple, list)):
        return len(a) == len(b) and all(same_shape(x, y) for x, y in zip(a, b))
    return a is b


def show(v):
    if isinstance(v, tuple):
        return "(" + ", ".join(show(x) for x in v) + ("," if len(v) == 1 else "") + ")"
    if isinstance(v, list):
        return "[" + ", ".join(show(x) for x in v) + "]"
    return getattr(v, "name", repr(v))


def tuple_roundtrip(ctx):
    a, b, c = Obj("a"), Obj("b"), Obj("c")
    values = [(), (a, b), (a, [b, c]), (a, []), (a, [b, [c]]), None]
    n, problems = 0, []

    def hook(fn, args, kwargs):
        if fn == "isinstance" and len(args) == 2:
            spec = args[1] if isinstance(args[1], tuple) else (args[1],)
            for t in spec:
                if t == "<type list>" and isinstance(args[0], list):
                    return True
                if t == "<type tuple>" and isinstance(args[0], tuple):
                    return True
                if t == "<type dict>" and isinstance(args[0], dict):
                    return True
            return False
        return NotImplemented
    for q in TUPLES:
        ser, de = ctx.hier.resolve(q, "serialize"), ctx.hier.resolve(q, "deserialize")
        if ser is None or de is None:
            raise AnalysisError("codec model: %s has no serialize/deserialize" % q)
        for v in values:
            try:
                it = Interp(ctx.hier, dyn=q, inline=lambda m: True, call_hook=hook, strict_self_calls=True)
                o1 = it.run_all(ser, {ser.params[0]: Obj("cls"), ser.params[1]: v})
                if len(o1) != 1 or o1[0].imprecise or o1[0].kind != "return":
                    raise AnalysisError("codec model: %s.serialize(%s) is not interpretable precisely" % (q.rsplit(".", 1)[-1], show(v)))
                wire = transport(o1[0].value)
                it2 = Interp(ctx.hier, dyn=q, inline=lambda m: True, call_hook=hook, strict_self_calls=True)
                o2 = it2.run_all(de, {de.params[0]: Obj("cls"), de.params[1]: wire})
                if len(o2) != 1 or o2[0].imprecise or o2[0].kind != "return":
                    raise AnalysisError("codec model: %s.deserialize(%s) is not interpretable precisely" % (q.rsplit(".", 1)[-1], show(wire)))
            except Unsupported as e:
                raise AnalysisError("codec model: absint cannot interpret the codec of %s: %s" % (q.rsplit(".", 1)[-1], e))
            n += 1
            back = o2[0].value
            if not same_shape(back, v):
                problems.append((q, "%s -> %s -> %s: the value that comes back is not the one that was serialized (%s)" % (
                    show(v), show(wire) if wire is not None else "null", show(back) if isinstance(back, (tuple, list)) or isinstance(back, Obj) or back is None else repr(back),
                    "a list inside the tuple is turned into a tuple" if isinstance(back, tuple) and any(isinstance(x, tuple) for x in back) else "shape or elements differ")))
    return n, problems


def per_parameter_route(ctx):
    f = ctx.hier.resolve(SER, "deserialize_parameter_value")
    if f is None:
        raise AnalysisError("codec model: JSONSerialization.deserialize_parameter_value not found")
    decoded = [("[] (a zero-length tuple on the wire)", []), ("0", 0), ("''", ""), ("false", False), ("{}", {}), ("null", None), ("[a, b]", [Obj("a"), Obj("b")]), ("7", 7)]
    n, problems = 0, []
    for label, val in decoded:
        calls = []
        result = Obj("what_the_parameter_codec_returns")

        def hook(fn, args, kwargs, val=val, calls=calls, result=result):
            if fn == "cls.loads":
                return val
            if fn.endswith(".deserialize") and len(args) == 1:
                calls.append(args[0])
                return result
            return NotImplemented
        pobj = Obj("object", param=Obj("namespace", __getitem__={"p": Obj("Parameter_p")}))
        it = Interp(ctx.hier, dyn=SER, inline=lambda m: False, call_hook=hook)
        try:
            outs = it.run_all(f, {f.params[0]: Obj("cls"), f.params[1]: pobj, f.params[2]: "p", f.params[3]: "<json text>"})
        except Unsupported as e:
            raise AnalysisError("codec model: absint cannot interpret deserialize_parameter_value: %s" % e)
        n += 1
        if len(outs) != 1 or outs[0].imprecise:
            raise AnalysisError("codec model: deserialize_parameter_value is not interpretable precisely for %s" % label)
        o = outs[0]
        if o.kind != "return" or len(calls) != 1 or calls[0] is not val and calls[0] != val or o.value is not result:
            problems.append((SER, "for the decoded value %s the parameter's deserialize is called %d time(s) and %s is returned: the type-specific decoding is skipped "
                                  "(a zero-length Tuple comes back as a list, which the Tuple then rejects)" % (label, len(calls), show(o.value) if o.kind == "return" else "an exception")))
    return n, problems


def report(ctx, rule_a, rule_b):
    n1, p1 = tuple_roundtrip(ctx)
    ctx.abstract_cases += n1
    f = ctx.hier.resolve(TUPLES[0], "deserialize")
    if p1:
        q, what = p1[0]
        g = ctx.hier.resolve(q, "deserialize")
        ctx.fail(rule_a, g, g.node, "codec model: %s: %s (%d disagreeing case(s))" % (q.rsplit(".", 1)[-1], what, len(p1)), key="%s::tuple-roundtrip" % g.qualname,
                 input="param.Tuple(default=('a', 7.6, [3, 5])): deserialize(serialize(value)) == ('a', 7.6, (3, 5))")
    else:
        ctx.ok(rule_a, f, f.node, "codec model: %d abstract values through serialize -> JSON transport -> deserialize of the Tuple family come back with the same shape and elements" % n1)
    n2, p2 = per_parameter_route(ctx)
    ctx.abstract_cases += n2
    g = ctx.hier.resolve(SER, "deserialize_parameter_value")
    if p2:
        ctx.fail(rule_b, g, g.node, "codec model: %s (%d disagreeing case(s))" % (p2[0][1], len(p2)), key=g.qualname + "::codec-skipped",
                 input="P.param.deserialize_value('t', '[]') for t = param.Tuple(default=(), length=0) -> [] instead of ()")
    else:
        ctx.ok(rule_b, g, g.node, "codec model: %d decoded values (falsy ones included) all go through <parameter>.deserialize" % n2)


def namespace_entry_points(ctx, rule):
    """The `.param` entry points of serialization (Parameters.serialize_parameters / serialize_value / deserialize_parameters)
    interpreted abstractly: the `subset` the caller gives -- None, meaning every parameter, included -- reaches the serializer
    unchanged, and what the serializer returns is handed back unchanged.  A default subset computed here (e.g. one that
    leaves out constant parameters, which the constructor does accept) silently drops legal state from the JSON."""
    from engine.absint import Interp, Obj, Unsupported
    from engine.loader import AnalysisError
    P_ = "param.parameterized."
    f = ctx.repo.func(P_ + "Parameters.serialize_parameters")
    problems, n = [], 0
    for subset in (None, ["a"], ["a", "c"]):
        seen = []
        result = Obj("serialized_text")
        serializer = Obj("json_serializer")
        target = Obj("object")
        pobjs = {"a": Obj("P_a", constant=False, readonly=False), "c": Obj("P_c", constant=True, readonly=False), "name": Obj("P_name", constant=True, readonly=False)}

        def hook(fn, args, kwargs):
            if fn.endswith(".serialize_parameters") and not fn.startswith("self_."):
                seen.append((args[0] if args else None, kwargs.get("subset", args[1] if len(args) > 1 else "<not given>")))
                return result
            if fn.endswith(".objects"):
                return dict(pobjs)
            if fn == "list":
                return list(args[0]) if args and isinstance(args[0], (list, tuple, dict)) else NotImplemented
            return NotImplemented
        ns = Obj("ns", self_or_cls=target, self=target, cls=Obj("Cls"))
        it = Interp(ctx.hier, dyn=P_ + "Parameters", inline=lambda m: False, call_hook=hook, globals={"Parameter": Obj("Parameter", _serializers={"json": serializer})})
        try:
            outs = it.run_all(f, {"self_": ns, "subset": None if subset is None else list(subset), "mode": "json"})
        except Unsupported as e:
            raise AnalysisError("%s: absint cannot interpret Parameters.serialize_parameters: %s" % (rule, e))
        if len(outs) != 1 or outs[0].imprecise or outs[0].kind != "return":
            raise AnalysisError("%s: Parameters.serialize_parameters is not interpretable precisely (%s)" % (rule, outs[0].notes[:2] if outs else "no outcome"))
        n += 1
        if len(seen) != 1 or seen[0][0] is not target:
            problems.append("serialize_parameters(subset=%r) calls the serializer %d time(s)" % (subset, len(seen)))
        elif (subset is None and seen[0][1] is not None) or (subset is not None and seen[0][1] != subset):
            problems.append("serialize_parameters(subset=%r) hands the serializer subset=%r: %s" % (subset, seen[0][1],
                            "parameters left out of a default subset (constant ones, ...) are legal state that the rebuilt object loses" if subset is None else "not the subset asked for"))
        elif outs[0].value is not result:
            problems.append("serialize_parameters(subset=%r) does not return what the serializer produced" % (subset,))
    ctx.abstract_cases += n
    if problems:
        ctx.fail(rule, f, f.node, "entry-point model: %s (%d disagreeing case(s))" % (problems[0], len(problems)), key=f.qualname + "::entry-point-model")
    else:
        ctx.ok(rule, f, f.node, "entry-point model: the subset given (None included) reaches the serializer unchanged and its result is returned unchanged (%d cases)" % n)


def deserialize_entry_point(ctx, rule):
    """Parameters.deserialize_parameters interpreted TWICE in a row with the same arguments on one class (whatever state
    the entry point keeps between calls is kept): each call must hand back what the serializer decoded for THAT call --
    the serializer is consulted every time and no mutable value of the second result is an object the first result
    holds too (a rebuilt object edits its List / Dict values in place; a remembered payload would hand the edited
    containers to the next rebuild)."""
    from engine.absint import Interp, Obj, Unsupported
    from engine.loader import AnalysisError
    P_ = "param.parameterized."
    f = ctx.repo.func(P_ + "Parameters.deserialize_parameters")
    serializer = Obj("json_serializer")
    target = Obj("Cls")
    calls, results = [], []
    state = {"BATCH_WATCH": False, "TRIGGER": False, "events": [], "watchers": []}
    target.attrs["_param__private"] = Obj("class_private", parameters_state=state)

    def hook(fn, args, kwargs):
        if fn.endswith(".deserialize_parameters") and not fn.startswith("self_."):
            calls.append((args, kwargs))
            return {"items": [Obj("decoded_element")], "mapping": {"k": Obj("decoded_value")}, "number": 3}
        if fn in ("tuple", "list") and args and isinstance(args[0], (list, tuple)):
            return tuple(args[0]) if fn == "tuple" else list(args[0])
        return NotImplemented
    ns = Obj("ns", self_or_cls=target, self=None, cls=target)
    it = Interp(ctx.hier, dyn=P_ + "Parameters", inline=lambda m: False, call_hook=hook, globals={"Parameter": Obj("Parameter", _serializers={"json": serializer})})
    for k in (1, 2):
        try:
            outs = it.run_all(f, {"self_": ns, "serialization": "the_same_json_text", "subset": ["items", "mapping"], "mode": "json"})
        except Unsupported as e:
            raise AnalysisError("%s: absint cannot interpret Parameters.deserialize_parameters: %s" % (rule, e))
        if len(outs) != 1 or outs[0].imprecise or outs[0].kind != "return" or not isinstance(outs[0].value, dict):
            raise AnalysisError("%s: Parameters.deserialize_parameters is not interpretable precisely (%s)" % (rule, outs[0].notes[:2] if outs else "no outcome"))
        results.append(outs[0].value)
    ctx.abstract_cases += 2
    shared = [k for k in results[0] if isinstance(results[0][k], (list, dict, set)) and results[1].get(k) is results[0][k]]
    if len(calls) != 2 or shared:
        ctx.fail(rule, f, f.node, "entry-point model: two deserialize_parameters calls with the same text consult the serializer %d time(s)%s: the second rebuild is handed the containers of the "
                                  "first -- once the first rebuilt object edited its list in place, the same JSON no longer rebuilds the saved state" % (
                                      len(calls), "; the mutable values %s of both results are the same objects" % shared if shared else ""),
                 key=f.qualname + "::deserialize-entry-point", input="a = C(**C.param.deserialize_parameters(s)); a.items.append(99); b = C(**C.param.deserialize_parameters(s)) -> b.items ends with 99")
    else:
        ctx.ok(rule, f, f.node, "entry-point model: every deserialize_parameters call decodes afresh; no mutable value is shared between the results of two calls")
