"""Instance-copy model (C12): _instantiate_param_obj and _instantiated_parameter interpreted abstractly.

The class-level Parameter has an immutable slot (bounds), mutable slots (an
objects list, a names dict), a default (a mutable list, shared by design),
class-level watchers and an owner.

Specification:
* the per-instance copy is a new object owned by the instance, with an empty
  watcher table of its own (the class table is untouched), the same default
  object, the same immutable slot values, and for every mutable slot other
  than the default a distinct container with the same contents -- so that
  editing `obj.param.x.objects` never reaches the class or another instance;
* _instantiated_parameter hands out that copy iff the object is initialized,
  the Parameter is per_instance and instance Parameters are not disabled for
  the class; it creates the copy once and returns the same one afterwards;
  otherwise it returns the class-level Parameter and stores nothing.
"""
from __future__ import annotations

import itertools

from engine.absint import Interp, Obj, PyFunc, Unsupported
from engine.loader import AnalysisError

P = "param.parameterized."


def _copy(x, *a):
    if isinstance(x, Obj):
        return Obj("copy_of_" + x.name, **dict(x.attrs))
    if isinstance(x, list):
        return list(x)
    if isinstance(x, dict):
        return type(x)(x)
    if isinstance(x, set):
        return set(x)
    return x


def mk_param():
    a, b = Obj("object_a"), Obj("object_b")
    slots = ["default", "bounds", "objects", "names", "extras", "watchers", "owner", "name", "per_instance"]
    klass = Obj("ParameterClass", _all_slots_=list(slots))
    import collections
    # names is an OrderedDict (what a dict-declared Selector holds), extras an EMPTY list: both are mutable containers
    p = Obj("class_level_Parameter", default=[a], bounds=(0, 1), objects=[a, b], names=collections.OrderedDict([("a", a), ("b", b)]), extras=[], watchers={"value": [Obj("class_watcher")]},
            owner=Obj("Cls"), name="x", per_instance=True)
    p.attrs["__class__"] = klass
    return p, slots


def hook(fn, args, kwargs):
    if fn in ("copy.copy", "copy"):
        return _copy(*args)
    if fn == "_is_mutable_container" and len(args) == 1:
        return isinstance(args[0], (list, dict, set))
    if fn == "type" and len(args) == 1 and isinstance(args[0], Obj) and "__type__" in args[0].attrs:
        return args[0].attrs["__type__"]
    if fn == "type" and len(args) == 1 and (isinstance(args[0], (list, dict, set, tuple, str, int, bool)) or args[0] is None):
        return "<type %s>" % type(args[0]).__name__
    if fn == "type" and len(args) == 1 and isinstance(args[0], Obj):
        return "<type of %s>" % args[0].name
    if fn == "isinstance" and len(args) == 2 and isinstance(args[0], (list, dict, set, tuple, str, int)) or fn == "isinstance" and len(args) == 2 and args[0] is None:
        spec = args[1] if isinstance(args[1], tuple) else (args[1],)
        names = {"<type %s>" % t.__name__ for t in type(args[0]).__mro__}
        if all(isinstance(t, str) for t in spec):
            return any(t in names for t in spec)
    return NotImplemented


def model(ctx):
    problems, n = [], 0
    f = ctx.repo.func(P + "_instantiate_param_obj")
    p, slots = mk_param()
    owner = Obj("the_instance")
    it = Interp(ctx.hier, call_hook=hook, inline_module_functions=True)
    try:
        outs = it.run_all(f, {"paramobj": p, "owner": owner})
    except Unsupported as e:
        raise AnalysisError("instance-copy model: absint cannot interpret _instantiate_param_obj: %s" % e)
    n += 1
    if len(outs) != 1 or outs[0].imprecise or outs[0].kind != "return" or not isinstance(outs[0].value, Obj):
        raise AnalysisError("instance-copy model: _instantiate_param_obj is not interpretable precisely")
    c = outs[0].value
    if c is p:
        problems.append("the 'copy' is the class-level Parameter itself")
    else:
        if c.attrs.get("owner") is not owner:
            problems.append("the copy is owned by %r, not by the instance" % (c.attrs.get("owner"),))
        w = c.attrs.get("watchers")
        if not isinstance(w, dict) or w or w is p.attrs["watchers"]:
            problems.append("the copy does not start with an empty watcher table of its own (%r): class-level watchers run for instance-level changes, or registering on the instance registers on the class" % (w,))
        if p.attrs["watchers"].get("value") is None or len(p.attrs["watchers"]["value"]) != 1:
            problems.append("creating the copy changes the watcher table of the class-level Parameter")
        if c.attrs.get("default") is not p.attrs["default"]:
            problems.append("the copy's default is not the class-level default object")
        for s_ in ("objects", "names", "extras"):
            v, cv = p.attrs[s_], c.attrs.get(s_)
            if cv is v:
                problems.append("the mutable slot `%s` of the copy is the very container of the class-level Parameter: editing obj.param.x.%s changes what the class and every other instance see" % (s_, s_))
            elif not isinstance(cv, (list, dict)) or isinstance(cv, list) != isinstance(v, list) or (list(cv) != list(v) if isinstance(v, list) else dict(cv) != dict(v)):
                problems.append("the mutable slot `%s` of the copy does not hold what the class-level slot holds (%r)" % (s_, cv))
        if c.attrs.get("bounds") != (0, 1) or c.attrs.get("name") != "x":
            problems.append("an immutable slot changes in the copy (bounds=%r, name=%r)" % (c.attrs.get("bounds"), c.attrs.get("name")))
    # ---- _instantiated_parameter
    g = ctx.repo.func(P + "_instantiated_parameter")
    for initialized, per_instance, disabled, has_copy in itertools.product([True, False], [True, False], [True, False], [True, False]):
        p, _ = mk_param()
        p.attrs["per_instance"] = per_instance
        existing = Obj("copy_made_earlier")
        store = {"x": existing} if has_copy else {}
        cls = Obj("Cls", _param__private=Obj("class_private", disable_instance_params=disabled))
        inst = Obj("the_instance", _param__private=Obj("private", initialized=initialized, params=store), __type__=cls)
        it = Interp(ctx.hier, call_hook=hook, inline_module_functions=True)
        try:
            first = it.run_all(g, {"parameterized": inst, "param": p})
            if len(first) != 1 or first[0].imprecise or first[0].kind != "return":
                raise AnalysisError("instance-copy model: _instantiated_parameter is not interpretable precisely (%s)" % (first[0].notes[:2] if first else ""))
            r1 = first[0].value
            it2 = Interp(ctx.hier, call_hook=hook, inline_module_functions=True)
            second = it2.run_all(g, {"parameterized": inst, "param": p})
            r2 = second[0].value if len(second) == 1 and second[0].kind == "return" else None
        except Unsupported as e:
            raise AnalysisError("instance-copy model: absint cannot interpret _instantiated_parameter: %s" % e)
        n += 1
        desc = "_instantiated_parameter(initialized=%s, per_instance=%s, instance Parameters %s, %s)" % (initialized, per_instance, "disabled" if disabled else "enabled", "a copy exists" if has_copy else "no copy yet")
        want_copy = initialized and per_instance and not disabled
        if want_copy:
            if has_copy and r1 is not existing:
                problems.append("%s: does not hand out the existing copy" % desc)
            if not has_copy and (r1 is p or not isinstance(r1, Obj) or store.get("x") is not r1):
                problems.append("%s: does not create and store a per-instance copy (returns %r)" % (desc, r1))
            if r2 is not r1:
                problems.append("%s: a second call hands out another object: two 'instance Parameters' for one parameter" % desc)
        else:
            if r1 is not p:
                problems.append("%s: hands out %r instead of the class-level Parameter" % (desc, r1))
            if set(store) != ({"x"} if has_copy else set()):
                problems.append("%s: stores a per-instance Parameter although none may exist in this state" % desc)
    return n, problems


def report(ctx, rule):
    n, problems = model(ctx)
    f = ctx.repo.func(P + "_instantiate_param_obj")
    ctx.abstract_cases += n
    if not problems:
        ctx.ok(rule, f, f.node, "instance-copy model, %d abstract cases: fresh copy owned by the instance, own empty watcher table, shared default, own containers for every other mutable slot; handed out once, only when allowed" % n)
    else:
        ctx.fail(rule, f, f.node, "instance-copy model: %s (%d disagreeing observation(s))" % (problems[0], len(problems)), key=f.qualname + "::instance-copy-model",
                 input="a.param.x.objects.append(3) -> visible on the class / on another instance")


def pf_instance_model(ctx, rule):
    """ParameterizedFunction.instance called on an existing instance, interpreted abstractly: the source holds `a` (set
    explicitly to a value EQUAL to the class default), `b` (changed) and its name; the caller overrides `c`.

    Specification: the new object is constructed with the source's value of EVERY parameter other than `name` (a value
    equal to the default included: the copy then owns it, and a later class-level change does not show through in the
    copy while the source keeps its value) plus the overrides."""
    PF = P + "ParameterizedFunction"
    f = ctx.repo.method(PF, "instance")
    va, vb, vc = Obj("value_a_equal_to_the_default"), Obj("value_b"), Obj("override_c")
    src_cls = Obj("Cls", __name__="Cls")
    src = Obj("existing_instance", name="src_name")
    src.attrs["__class__"] = src_cls
    got = {}

    def hook(fn, args, kwargs):
        if fn == "isinstance" and len(args) == 2 and args[0] is src:
            return False            # not the class route
        if fn.endswith(".param.values"):
            oc = kwargs.get("onlychanged", args[0] if args else False)
            if oc is True:
                return {"b": vb}                 # values(onlychanged=True): what differs from the defaults
            if oc is False:
                return {"name": "src_name", "a": va, "b": vb}
            raise Unsupported("values(onlychanged=%r)" % (oc,))
        if fn == "Parameterized.__new__":
            return Obj("new_instance")
        if fn == "Parameterized.__init__":
            got["kwargs"] = dict(kwargs)
            return None
        return NotImplemented
    it = Interp(ctx.hier, call_hook=hook)
    try:
        outs = it.run_all(f, {f.params[0]: src, "params": {"c": vc}})
    except Unsupported as e:
        raise AnalysisError("instance-copy model: absint cannot interpret ParameterizedFunction.instance: %s" % e)
    if len(outs) != 1 or outs[0].imprecise or outs[0].kind != "return":
        raise AnalysisError("instance-copy model: ParameterizedFunction.instance is not interpretable precisely (%s)" % (outs[0].notes[:2] if outs else "no outcome"))
    ctx.abstract_cases += 1
    kw = got.get("kwargs")
    want = {"a": va, "b": vb, "c": vc}
    if not isinstance(kw, dict) or set(kw) != set(want) or any(kw[k] is not want[k] for k in want):
        ctx.fail(rule, f, f.node, "instance-copy model: obj.instance(c=...) constructs the copy with %s, specification %s: a value the source set explicitly that equals the class default is not "
                                  "carried over -- the copy follows later class-level changes of that parameter while the source keeps its value" % (sorted(kw) if isinstance(kw, dict) else kw, sorted(want)),
                 key=f.qualname + "::instance-copy-values", input="f = F.instance(); f.x = F.x; g = f.instance(); F.x = 9 -> g.x == 9 while f.x keeps its value")
    else:
        ctx.ok(rule, f, f.node, "instance-copy model: obj.instance(**overrides) hands the constructor every value of the source except its name, plus the overrides")
