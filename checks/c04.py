"""C04 -- batched dispatch defers, coalesces, delivers once at outermost exit
(necessary conditions; DESIGN §3/C04)."""
from __future__ import annotations

import ast
import itertools

from checks.c05 import find_scopes, is_flush_call
from checks.dispatch_model import call_watcher_outcome
from engine.cfg import decompose
from engine.effects import walk_stmts
from engine.facts import calls_in, reaching_defs, stores_in
from engine.loader import norm

P = "param.parameterized."


def run(ctx):
    ctx.rule("R04.w", "a copy coalesces like its original (shared with R17.i): Parameterized.__setstate__ re-creates a watcher listed under several parameters as ONE object -- the batch queue "
                      "tells watchers apart by identity, so two objects mean two calls for one batch", floor=1)
    ctx.rule("R04.v", "slot dispatch model (shared with R06.t): watchers of a Parameter attribute are dispatched through the namespace of the Parameter's OWNER, so an open batch on an "
                      "instance defers them like value watchers", floor=1)
    ctx.rule("R04.k", "`param.update(...)` used as a context manager restores the previous links on exit: Parameters.update, interpreted abstractly on six call forms (keywords / dict / dict+keywords / "
                      "pairs / pairs+keywords), hands the restorer the reference of every given parameter that is currently linked (synchronous or pending asynchronous) -- shared with R08.f", floor=1)
    ctx.rule("R04.x", "context-manager model: _batch_call_watchers, batch_call_watchers, discard_events, _syncing and edit_constant interpreted abstractly with the body of the `with` supplied at the `yield` (62 cases: entry state x body ends normally / raises x nesting x queues replaced in the body x Parameter copies made in the body): flag, queues, syncing set and constant flags are, after the block, what they were before; the flush runs iff outermost, after the restore, also when the body raised", floor=1)
    ctx.rule("R04.r", "update-context exit: _ParametersRestorer.__exit__ interpreted abstractly (3 cases) assigns back every recorded previous value -- also one identical to the current value -- and every remembered reference in one update, and forgets the record, also when that update raises", floor=1)
    ctx.rule("R04.y", "Event model: Event.__set__ interpreted abstractly on mode (set-reset / set / reset) x the assignment proper succeeds / is refused / a watcher raises: in set-reset the Event is assigned and then reset whatever happens, in set (held so by update/trigger while it is delivered) it is assigned and NOT reset, in reset it is only reset", floor=1)
    ctx.rule("R04.a", "while the batching flag is set _call_watcher executes nothing: on that arm the event and the watcher are queued (16 abstract cases incl. queued watchers, exhaustive)", floor=1)
    ctx.rule("R04.b", "every flush call outside the flush itself is controlled by `not <saved batching flag>` or `not <read of the flag>` (flush iff outermost)", floor=5)
    ctx.rule("R04.c", "coalescing: a watcher already queued (by identity) is not queued again, a different one is; the flush "
                      "empties both queues before running the watchers and loops until no event is left (which event each watcher receives: flush model, R04.h)", floor=3)
    ctx.rule("R04.g", "the flush runs the queued watchers in precedence order on every path (stable sort of the queue)", floor=1)
    ctx.rule("R04.i", "every writer that extends the watcher queue keeps it free of duplicates by identity (an append is guarded by an identity test, a merge filters by identity)", floor=1)
    ctx.rule("R04.d", "discard_events restores copies of the queues taken before the body (not aliases)", floor=2)
    ctx.rule("R04.e", "update(...) captures the previous values (of every given key) and links before applying, and _ParametersRestorer.__exit__ re-applies them through _update", floor=3)
    ctx.rule("R04.f", "trigger re-submits the CURRENT values of the named parameters (plus the transient True of Events) under the trigger flag", floor=1)
    ctx.rule("R04.h", "flush model (abstract interpretation on small queues): every queued watcher runs exactly once in (precedence, queue position) order with the last event per watched parameter; cascaded events are delivered in a further round", floor=1)
    ctx.rule("R04.s", "setter model: Parameter.__set__ interpreted abstractly on every combination (576) of route x constant/readonly x validation outcome x identity x reference mode x watchers x "
                      "batching: while a batch is open every assignment still hands its event to every watcher, also when an event for the very same transition is already pending "
                      "(the flush keeps the last event per parameter)", floor=1)
    ctx.rule("R04.q", "queue setters: the property setters Parameters._events / _state_watchers interpreted abstractly -- installing a new queue rebinds the stored list and leaves the list "
                      "object read before untouched (trigger, the flush and discard_events keep references to it across the installation)", floor=2)
    ctx.rule("R04.m", "update model: Parameters._update interpreted abstractly (entry batching flag x key orders incl. an Event key x a rejected or unknown key at every position x a value identical to the current one, 60 cases): flag restored, flush exactly once iff outermost and after the restore, keys applied in order up to the failing one, Event mode and reset, complete previous-values mapping", floor=1)
    ctx.rule("R04.t", "trigger model: Parameters.trigger interpreted abstractly (instance/class x names incl. an Event and an unknown name x an event and a watcher queued before x the update dispatches / queues / raises, 96 cases): update runs once, with the trigger flag raised and the parked queues empty, on the current values; on exit the flag is lowered, earlier queue entries survive, no watcher is queued twice; the write-back is inside a _syncing scope", floor=1)
    ctx.not_decided += ["delivery counts and event contents under arbitrary nestings of batch/update/discard/trigger (need execution)"]

    # ------------------------------------------------------------ R04.a
    bad, badq = [], []
    n = 0
    for trig, oc, changed, queued in itertools.product([True, False], repeat=4):
        got, ns, w, _ = call_watcher_outcome(ctx, trig, oc, changed, True, queued=queued)
        n += 1
        if got in ("execute", "both"):
            bad.append((trig, oc, changed, got))
        # what is queued is exactly what qualifies: the event and the watcher together, or neither (an event queued for a
        # watcher it does not qualify for is delivered at the flush to the multi-parameter watchers queued through another
        # parameter, and replaces the qualifying event of an earlier assignment in the coalesced table)
        qualifies = trig or not oc or changed
        n_ev, n_w = len(ns.attrs["_events"]), len([x for x in ns.attrs["_state_watchers"] if x is w])
        if (n_ev, n_w) != ((1, 1) if qualifies else (0, 0)):
            badq.append((trig, oc, changed, n_ev, n_w))
    ctx.abstract_cases += n
    cw = ctx.repo.func(P + "Parameters._call_watcher")
    if badq and not bad:
        ctx.fail("R04.a", cw, cw.node, "with the batching flag set (TRIGGER=%s, onlychanged=%s, changed=%s) _call_watcher queues %d event(s) and the watcher %d time(s); specification: the event and "
                                       "the watcher together when the event qualifies for the watcher, nothing otherwise" % badq[0], key=cw.qualname + "::queued-what-does-not-qualify")
    if bad:
        ctx.fail("R04.a", cw, cw.node, "with the batching flag set (TRIGGER=%s, onlychanged=%s, changed=%s) _call_watcher still executes the watcher (%s)" % bad[0])
    else:
        ctx.ok("R04.a", cw, cw.node, "16/16 abstract cases: nothing executes while batching")

    # ------------------------------------------------------------ R04.b
    scopes = {(s.f.qualname): s for s in find_scopes(ctx) if s.fld == "_BATCH_WATCH"}
    sites = 0
    for f in ctx.repo.all_funcs("param"):
        if f.qualname == P + "Parameters._batch_call_watchers":
            continue
        if not any(isinstance(c, ast.Call) and is_flush_call(c) for c in ast.walk(f.node)):
            continue
        cfg = ctx.facts.cfg(f)
        saves = scopes[f.qualname].saves if f.qualname in scopes else set()
        for nd in cfg.live_nodes():
            if not any(is_flush_call(c) for c in calls_in(nd)):
                continue
            sites += 1
            ok = None
            for d in cfg.dominating(nd):
                if d.kind != "br":
                    continue
                for e, t in decompose(d.ast, d.polarity):
                    if t is False and isinstance(e, ast.Name) and e.id in saves:
                        ok = "not %s (saved flag)" % e.id
                    if t is False and isinstance(e, ast.Attribute) and e.attr == "_BATCH_WATCH":
                        ok = "not %s (live flag)" % norm(e)
            if ok:
                ctx.ok("R04.b", f, nd, "flush controlled by `%s`" % ok)
            else:
                ctx.fail("R04.b", f, nd, "the flush `%s` is not guarded by the batching flag: queued events of an enclosing batch are delivered before the outermost exit" % nd.text())
    ctx.require(sites >= 5, "fewer than 5 flush call sites found (%d)" % sites)

    # ------------------------------------------------------------ R04.c
    cwc = ctx.facts.cfg(cw)
    apps = [nd for nd in cwc.live_nodes() for c in calls_in(nd) if isinstance(c.func, ast.Attribute) and c.func.attr == "append"
            and ctx.facts.field_of(c.func.value, {}) == "_state_watchers"]
    ctx.require(apps, "_call_watcher no longer appends to the watcher queue")
    by_equality = None
    for nd in apps:
        for d in cwc.dominating(nd):
            if d.kind == "br":
                for cmpn in ast.walk(d.ast):
                    if isinstance(cmpn, ast.Compare) and isinstance(cmpn.ops[0], (ast.In, ast.NotIn, ast.Eq, ast.NotEq)) \
                            and any(ctx.facts.field_of(x, {}) == "_state_watchers" for x in ast.walk(cmpn) if isinstance(x, ast.Attribute)):
                        by_equality = (nd, cmpn)
    if by_equality:
        ctx.fail("R04.c", cw, by_equality[0],
                 "queued watchers are de-duplicated with `%s` (equality of the Watcher tuples), not by identity: two separately registered "
                 "watchers with equal fields are queued once and only one of them runs at the flush" % norm(by_equality[1]),
                 key=cw.qualname + "::dedup-by-equality",
                 input="watch the same callback twice on the same parameter; inside batch_call_watchers set it once -> callback runs once instead of twice")
        got = None
    else:
        got, ns, w, pre = call_watcher_outcome(ctx, False, False, True, True, prequeued="same")
    ctx.abstract_cases += 2
    if got is not None:
        if got == "queue" and len(ns.attrs["_state_watchers"]) == 1 and len(ns.attrs["_events"]) == 1:
            ctx.ok("R04.c", cw, cw.node, "a watcher already queued (same object) is not queued twice; its event is")
        else:
            ctx.fail("R04.c", cw, cw.node, "a watcher that is already queued is queued again (it would run twice at the flush)", key=cw.qualname + "::requeue")
        got, ns, w, pre = call_watcher_outcome(ctx, False, False, True, True, prequeued="other")
        if got == "queue" and len(ns.attrs["_state_watchers"]) == 2 and ns.attrs["_state_watchers"][-1] is w:
            ctx.ok("R04.c", cw, cw.node, "a different watcher is appended after the queued ones (queue order preserved)")
        else:
            ctx.fail("R04.c", cw, cw.node, "a second, different watcher is not queued (de-duplication is not by identity)", key=cw.qualname + "::dedup-not-identity")
    fl = ctx.repo.func(P + "Parameters._batch_call_watchers")
    fc = ctx.facts.cfg(fl)
    # (which event a watcher receives is decided by the flush model, R04.h -- not by the shape of the mapping expression)
    loops = [nd for nd in fc.live_nodes() if nd.kind == "iter" and any(isinstance(c, ast.Call) and isinstance(c.func, ast.Attribute) and c.func.attr == "_execute_watcher" for c in ast.walk(nd.stmt))]
    resets = {}
    for nd in fc.live_nodes():
        for t in stores_in(nd):
            fld = ctx.facts.field_of(t, {})
            if fld in ("_events", "_state_watchers") and isinstance(nd.ast, ast.Assign) and isinstance(nd.ast.value, ast.List) and not nd.ast.value.elts:
                resets.setdefault(fld, []).append(nd)
    outer = [nd for nd in fc.live_nodes() if nd.kind == "test" and isinstance(nd.stmt, ast.While) and norm(nd.ast).endswith("._events")]
    if loops and all(any(fc.dominates(r, lp) for r in resets.get(fld, [])) for lp in loops for fld in ("_events", "_state_watchers")) and outer:
        ctx.ok("R04.c", fl, loops[0], "both queues are emptied before the watchers run, inside `while <events>` (cascades are flushed too)")
    else:
        ctx.fail("R04.c", fl, fl.node, "the flush does not empty both queues before running the watchers inside a `while <events>` loop: events raised by the watchers are lost or delivered twice")

    from checks.shared import dispatch_loops_sorted
    dispatch_loops_sorted(ctx, "R04.g", ((P + "Parameters._batch_call_watchers", "_execute_watcher"),))

    # ------------------------------------------------------------ R04.i
    n_ext = 0
    for g in ctx.repo.all_funcs("param.parameterized"):
        if "_state_watchers" not in ast.unparse(g.node):
            continue
        gcfg = None
        for st in walk_stmts(g.node):
            ext = None
            if isinstance(st, ast.AugAssign) and isinstance(st.op, ast.Add) and ctx.facts.field_of(st.target, {}) == "_state_watchers":
                ext = ("merge", st.value)
            if isinstance(st, ast.Expr) and isinstance(st.value, ast.Call) and isinstance(st.value.func, ast.Attribute) \
                    and st.value.func.attr in ("append", "extend") and ctx.facts.field_of(st.value.func.value, {}) == "_state_watchers":
                ext = (st.value.func.attr, st.value.args[0] if st.value.args else None)
            if ext is None:
                continue
            n_ext += 1
            kind, val = ext
            ok = False
            if kind == "append":
                gcfg = gcfg or ctx.facts.cfg(g)
                for nd in gcfg.nodes_of(st):
                    for d in gcfg.dominating(nd):
                        if d.kind == "br" and any(isinstance(c, ast.Compare) and isinstance(c.ops[0], (ast.Is, ast.IsNot)) for c in ast.walk(d.ast)) \
                                and "_state_watchers" in norm(d.ast):
                            ok = True
            else:
                ok = isinstance(val, (ast.ListComp, ast.GeneratorExp)) and any(
                    isinstance(c, ast.Compare) and isinstance(c.ops[0], (ast.Is, ast.IsNot)) for cond in val.generators[0].ifs for c in ast.walk(cond)) \
                    and any("_state_watchers" in norm(cond) for cond in val.generators[0].ifs)
            if ok:
                ctx.ok("R04.i", g, st, "%s into the watcher queue keeps identity-uniqueness" % kind)
            else:
                ctx.fail("R04.i", g, st, "`%s` extends the watcher queue without filtering out watchers that are already queued (by identity): such a watcher runs twice at the flush" % norm(st)[:80],
                         key="%s::duplicate-queue-entries" % g.qualname,
                         input="with batch_call_watchers(p): p.a = 1; p.param.trigger('a')  -> every watcher of a runs twice at the flush")
    ctx.require(n_ext >= 1, "fewer than 1 site extending the watcher queue found (%d)" % n_ext)

    # ------------------------------------------------------------ R04.d
    de = ctx.repo.func(P + "discard_events")
    dc = ctx.facts.cfg(de)
    ys = [nd for nd in dc.live_nodes() if nd.suspend]
    ctx.require(ys, "discard_events has no yield")
    for fld in ("_events", "_state_watchers"):
        ws = [nd for nd in dc.live_nodes() for t in stores_in(nd) if ctx.facts.field_of(t, {}) == fld and "finally" in (nd.lex[-1][1] if nd.lex else "")]
        if not ws:
            ctx.fail("R04.d", de, de.node, "discard_events does not restore %s in its finally" % fld, key=de.qualname + "::no-restore::" + fld)
            continue
        good = True
        for wn in ws:
            rhs = wn.ast.value
            if isinstance(wn.ast.targets[0], ast.Tuple):
                good = False
                continue
            if not isinstance(rhs, ast.Name):
                good = False
                continue
            defs = reaching_defs(dc, wn, rhs.id)
            for d in defs:
                val = d.ast.value if isinstance(d.ast, ast.Assign) else None
                tgt = d.ast.targets[0] if isinstance(d.ast, ast.Assign) else None
                if isinstance(tgt, ast.Tuple) and isinstance(val, ast.Tuple):
                    for a, b in zip(tgt.elts, val.elts):
                        if isinstance(a, ast.Name) and a.id == rhs.id:
                            val = b
                copying = isinstance(val, ast.Call) and (norm(val.func) in ("list", "copy.copy") or (isinstance(val.func, ast.Attribute) and val.func.attr == "copy")) \
                    or (isinstance(val, ast.Subscript) and isinstance(val.slice, ast.Slice))
                reads = val is not None and any(ctx.facts.field_of(x, {}) == fld for x in ast.walk(val) if isinstance(x, ast.Attribute))
                before = all(dc.dominates(d, y) for y in ys)
                if not (copying and reads and before):
                    good = False
        if good:
            ctx.ok("R04.d", de, ws[0], "%s restored from a copy taken before the body" % fld)
        else:
            ctx.fail("R04.d", de, ws[0], "discard_events restores %s from something that is not a copy of the queue taken before the body "
                                         "(with an alias, events raised inside are appended to the very list that is 'restored')" % fld,
                     key=de.qualname + "::alias-restore::" + fld)

    # ------------------------------------------------------------ R04.e
    up = ctx.repo.func(P + "Parameters.update")
    uc = ctx.facts.cfg(up)
    calls = [nd for nd in uc.live_nodes() for c in calls_in(nd) if isinstance(c.func, ast.Attribute) and c.func.attr == "_update"]
    ret = [nd for nd in uc.live_nodes() if nd.kind == "stmt" and isinstance(nd.ast, ast.Return) and isinstance(nd.ast.value, ast.Call)
           and norm(nd.ast.value.func) == "_ParametersRestorer"]
    ok = False
    why = "update() does not return a _ParametersRestorer"
    if calls and ret:
        kw = {k.arg: k.value for k in ret[0].ast.value.keywords}
        rs, rf = kw.get("restore"), kw.get("refs")
        why = "restorer is not given restore=<result of _update> and refs=<links captured before _update>"
        if isinstance(rs, ast.Name) and isinstance(rf, ast.Name):
            rs_defs = reaching_defs(uc, ret[0], rs.id)
            from_update = rs_defs and all(any(isinstance(c.func, ast.Attribute) and c.func.attr == "_update" for c in calls_in(d)) for d in rs_defs)
            caps = [nd for nd in uc.live_nodes() for t in stores_in(nd) if isinstance(t, ast.Subscript) and norm(t.value) == rf.id]
            reads_links = caps and all(any(ctx.facts.field_of(x, ctx.facts.local_aliases(up)) in ("private.refs", "private.async_refs")
                                           for x in ast.walk(cp.ast.value) if isinstance(x, (ast.Attribute, ast.Name))) for cp in caps)
            before = caps and all(not any(r is cp for r in uc.reachable_from([c_])) for c_ in calls for cp in caps)
            ok = bool(from_update and reads_links and before)
            if not before:
                why = "the previous links are captured after _update already applied the new values"
    (ctx.ok if ok else ctx.fail)("R04.e", up, ret[0] if ret else up.node,
                                 "links are captured before _update applies the new values; the restorer receives the values _update replaced and those links" if ok else why)
    upd = ctx.repo.func(P + "Parameters._update")
    rets = [st for st in walk_stmts(upd.node) if isinstance(st, ast.Return) and isinstance(st.value, ast.Name)]
    ctx.require(rets, "_update no longer returns the replaced values")
    rdefs = [st for st in walk_stmts(upd.node) if isinstance(st, ast.Assign) and any(isinstance(t, ast.Name) and t.id == rets[0].value.id for t in st.targets)]
    good = False
    why = "_update does not build the values to restore with one comprehension over the given keys"
    if len(rdefs) == 1 and isinstance(rdefs[0].value, ast.DictComp):
        dc = rdefs[0].value
        g0 = dc.generators[0]
        over_kwargs = "kwargs" in norm(g0.iter)
        keyvar = norm(dc.key)
        extra = [norm(c) for c in g0.ifs if not (isinstance(c, ast.Compare) and isinstance(c.ops[0], ast.In) and norm(c.left) == keyvar)]
        good = over_kwargs and not extra and isinstance(dc.value, ast.Subscript) and norm(dc.value.slice) == keyvar
        if extra:
            why = "the values to restore are filtered by `%s`: a key given to update() is not put back when the context exits" % " and ".join(extra)
    (ctx.ok if good else ctx.fail)("R04.e", upd, rdefs[0] if rdefs else upd.node,
                                   "every key given to update that names a parameter is recorded with its previous value" if good else why)
    ex = ctx.repo.method(P + "_ParametersRestorer", "__exit__")
    init = ctx.repo.method(P + "_ParametersRestorer", "__init__")
    stored = {t.attr: norm(st.value) for st in walk_stmts(init.node) if isinstance(st, ast.Assign) for t in st.targets if isinstance(t, ast.Attribute)}
    attr_of = {v.split(" ")[0] if not v.startswith("{}") else v: k for k, v in stored.items()}
    r_attr = [k for k, v in stored.items() if v == "restore"]
    f_attr = [k for k, v in stored.items() if "refs" in v]
    ok = False
    for c in ast.walk(ex.node):
        if isinstance(c, ast.Call) and isinstance(c.func, ast.Attribute) and c.func.attr == "_update" and c.args:
            names = {norm(a) for a in ast.walk(c.args[0]) if isinstance(a, ast.Attribute)}
            if r_attr and f_attr and {"self." + r_attr[0], "self." + f_attr[0]} <= names:
                ok = True
    (ctx.ok if ok else ctx.fail)("R04.e", ex, ex.node, "__exit__ re-applies the saved values merged with the saved links through _update" if ok else
                                 "_ParametersRestorer.__exit__ does not re-apply both the saved values and the saved links through _update")

    # ------------------------------------------------------------ R04.f
    tr = ctx.repo.func(P + "Parameters.trigger")
    tc = ctx.facts.cfg(tr)
    vararg = tr.node.args.vararg.arg if tr.node.args.vararg else None
    upd = [(nd, c) for nd in tc.live_nodes() for c in calls_in(nd) if isinstance(c.func, ast.Attribute) and c.func.attr in ("update", "_update") and norm(c.func.value) == "self_"]
    ok = False
    if upd and vararg:
        nd, c = upd[0]
        parts = []
        a0 = c.args[0] if c.args else None
        if isinstance(a0, ast.Call) and norm(a0.func) == "dict":
            parts = list(a0.args) + [k.value for k in a0.keywords if k.arg is None]
        elif isinstance(a0, ast.Dict):
            parts = [v for k, v in zip(a0.keys, a0.values) if k is None]

        def resolve(e):
            if isinstance(e, ast.Name):
                ds = reaching_defs(tc, nd, e.id)
                if len(ds) == 1 and isinstance(ds[0].ast, ast.Assign):
                    return ds[0].ast.value, ds[0]
            return e, nd
        cur_ok = False
        for part in parts:
            v, at = resolve(part)
            if isinstance(v, ast.DictComp) and norm(v.generators[0].iter) == vararg and isinstance(v.value, ast.Subscript)                     and norm(v.value.slice) == norm(v.key) == norm(v.generators[0].target):
                src, _ = resolve(v.value.value) if isinstance(v.value.value, ast.Name) else (v.value.value, at)
                if isinstance(v.value.value, ast.Name):
                    ds = reaching_defs(tc, at, v.value.value.id)
                    src = ds[0].ast.value if len(ds) == 1 and isinstance(ds[0].ast, ast.Assign) else None
                if isinstance(src, ast.Call) and norm(src.func) == "self_.values" and not src.args:
                    cur_ok = True
        ok = cur_ok and len(parts) == 2
    (ctx.ok if ok else ctx.fail)("R04.f", tr, upd[0][0] if upd else tr.node,
                                 "trigger submits {name: current value for name in names} merged with the Event autotrigger values" if ok else
                                 "trigger no longer re-submits exactly the current values of the named parameters (it would alter values)")

    # the model-level rule comes last: if the interpreter cannot follow an edited flush,
    # the structural findings above are still reported
    from checks.shared import flush_model
    flush_model(ctx, "R04.h")
    from checks.c08 import update_restorer_refs
    update_restorer_refs(ctx, "R04.k")
    from checks.shared import trigger_event_model
    trigger_event_model(ctx, "R04.v")
    from checks.c17 import setstate_watcher_table
    setstate_watcher_table(ctx, "R04.w")

    from checks.shared import restorer_model
    restorer_model(ctx, "R04.r")
    from checks.shared import event_model
    event_model(ctx, "R04.y", "C04")
    from checks.shared import queue_setters_model
    queue_setters_model(ctx, "R04.q")
    from checks import setter_model
    setter_model.report(ctx, "C04", "R04.s")
    from checks import update_model
    update_model.report(ctx, "C04", "R04.m")
    from checks import trigger_model
    trigger_model.report(ctx, "C04", "R04.t")
    from checks import cm_model
    cm_model.report(ctx, "C04", "R04.x")
