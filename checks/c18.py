"""C18 -- a Selector's objects, names and range stay consistent (DESIGN §3/C18)."""
from __future__ import annotations

import ast
from collections import Counter

from engine.facts import assigned_names, calls_in
from engine.loader import norm

LP = "param.parameters.ListProxy"
MUTATORS = ["__setitem__", "append", "insert", "extend", "update", "pop", "remove", "clear"]
LIST_MUTATORS = {"__setitem__", "append", "insert", "extend", "pop", "remove", "clear", "sort", "reverse", "__delitem__", "__iadd__", "__imul__"}


def is_super_call(c, op=None):
    return isinstance(c, ast.Call) and isinstance(c.func, ast.Attribute) and isinstance(c.func.value, ast.Call) \
        and norm(c.func.value.func) == "super" and (op is None or c.func.attr == op)


def objects_store(expr):
    """`self._parameter._objects` access path?"""
    return isinstance(expr, ast.Attribute) and expr.attr == "_objects" and norm(expr.value) == "self._parameter"


def names_store(expr):
    return isinstance(expr, ast.Attribute) and expr.attr == "names" and norm(expr.value) == "self._parameter"


def block_mutations(stmts):
    """(proxy mutations, _objects mutations, names mutations) of one statement list."""
    proxy, objs, names = [], [], []
    for st in stmts:
        if isinstance(st, (ast.If, ast.For, ast.While, ast.With, ast.Try, ast.FunctionDef)):
            continue
        tgt_sub = None
        if isinstance(st, ast.Assign) and len(st.targets) == 1 and isinstance(st.targets[0], ast.Subscript):
            tgt_sub = st.targets[0]
        if tgt_sub is not None and objects_store(tgt_sub.value):
            objs.append(("__setitem__", (norm(tgt_sub.slice), norm(st.value)), st))
        if tgt_sub is not None and names_store(tgt_sub.value):
            names.append(("__setitem__", (norm(tgt_sub.slice), norm(st.value)), st))
        if isinstance(st, ast.Assign) and any(names_store(t) for t in st.targets):
            names.append(("rebind", (), st))
        for c in (x for x in ast.walk(st) if isinstance(x, ast.Call)):
            if is_super_call(c) and c.func.attr in LIST_MUTATORS:
                proxy.append((c.func.attr, tuple(norm(a) for a in c.args), st))
            elif isinstance(c.func, ast.Attribute) and objects_store(c.func.value) and c.func.attr in LIST_MUTATORS:
                objs.append((c.func.attr, tuple(norm(a) for a in c.args), st))
            elif isinstance(c.func, ast.Attribute) and names_store(c.func.value) and c.func.attr in ("pop", "clear", "update", "setdefault", "popitem"):
                names.append((c.func.attr, tuple(norm(a) for a in c.args), st))
    return proxy, objs, names


def all_blocks(fnode):
    out = []

    def visit(stmts, withs):
        out.append((stmts, withs))
        for st in stmts:
            if isinstance(st, (ast.FunctionDef, ast.AsyncFunctionDef, ast.ClassDef)):
                continue
            w = withs
            if isinstance(st, ast.With):
                w = withs + [st]
            for fld in ("body", "orelse", "finalbody"):
                b = getattr(st, fld, None)
                if b:
                    visit(b, w)
            for h in getattr(st, "handlers", []) or []:
                visit(h.body, w)
    visit(fnode.body, [])
    return out


def is_trigger_with(w: ast.With):
    return any(isinstance(i.context_expr, ast.Call) and norm(i.context_expr.func) == "self._trigger" for i in w.items)


def run(ctx):
    ctx.rule("R18.m", "a change of a Parameter attribute (objects, bounds, ...) is announced with the assigned value: in Parameter.__setattr__ the third argument of _trigger_event is the `value` parameter itself, never a read-back through a property", floor=1)
    ctx.rule("R18.s", "selector model, compute_default: the computed default (each item of it, for a ListSelector) is added to the objects in force exactly once", floor=1)
    ctx.rule("R18.o", "selector model, objects setter: assigning the same labelled objects in another order / the same mapping / other labels / a list / an empty mapping: names and the objects "
                      "in force become exactly what was assigned, in that order (equality of dicts ignores order; nothing assigned is ever dropped as 'already there')", floor=1)
    ctx.rule("R18.v", "setter model: Parameter.__set__ interpreted abstractly on every combination (578) of route x constant/readonly x validation outcome x identity x reference mode x watchers x "
                      "batching: every assignment is validated, also one that re-assigns the identical object (the membership check of a Selector is its validation, and the objects may have changed)", floor=1)
    ctx.rule("R18.n", "selector model, _named_objs: what get_range() returns, interpreted for objects with declared labels one of which is falsy ('' / 0) and an unlabelled object: every "
                      "labelled object is listed under exactly its label, an unlabelled one under its name", floor=1)
    ctx.rule("R18.w", "the read side of the list view is list's own: ListProxy does not override __contains__ / __iter__ / __len__ / index / count -- validation (`val not in self.objects`) "
                      "and get_range() read the objects through them", floor=1)
    ctx.rule("R18.p", "selector model, re-declaration: the `objects` setter given Undefined (a Selector re-declared in a subclass without objects) leaves the labels to be inherited together with "
                      "the objects -- it does not store names = {} next to objects that stay inherited", floor=1)
    ctx.rule("R18.a", "in every listed mutator each mutation of the proxy list has, in the same block, the same mutation of _objects with identical arguments (and vice versa); update only delegates", floor=8)
    ctx.rule("R18.b", "ListProxy.pop returns, on every path, a value obtained from a .pop(...) on one of the stores", floor=2)
    ctx.rule("R18.c", "where a mutator rebuilds names after removing an object, the filter keeps the entries NOT identical to it (pop and remove agree)", floor=2)
    ctx.rule("R18.d", "every store mutation of a mutator lies inside exactly one `with self._trigger(...)` scope; delegated mutator calls pass trigger=False", floor=8)
    ctx.rule("R18.e", "readers use the current stores (get_range reads _objects and names; membership is tested against self.objects; the objects setter assigns names and _objects together)", floor=4)
    ctx.rule("R18.g", "an iterable argument that feeds both stores is materialised first (extend; slice assignment): an iterator would be exhausted by the first store", floor=2)
    ctx.rule("R18.h", "names entries are removed only by the removers (pop, remove, clear): __setitem__ / update overwrite a key in place, so a re-assigned key keeps its position "
                      "(names order = list order)", floor=2)
    ctx.rule("R18.i", "the notification of a mutation carries the state after it: in ListProxy._trigger the old value is a copy taken before the yield, and the new value handed to "
                      "_trigger_event is read from the Parameter after the yield (a mutator may rebind names/_objects, so a container reference taken before the yield is stale)", floor=1)
    ctx.rule("R18.j", "ListProxy model: every mutator (append, insert, extend, pop by index/key, remove -- also with an equal-but-not-identical argument --, clear, item and key assignment, "
                      "update) interpreted abstractly from an unnamed and a named store of abstract objects agrees with list/dict semantics: list view = _objects = names.values() (identity "
                      "and order), keys as specified, pop returns what it removed, a failed operation leaves no trace (33 operations)", floor=1)
    ctx.rule("R18.k", "selector model: the validators of Selector and ListSelector interpreted abstractly (objects from a list / from a dict / a dict-declared selector after a list-style replacement x allow_None x check_on_set x None / object in force / object names still mentions / unknown object, 104 cases): accepted iff None with allow_None or one of the objects in force (_objects); nothing appended under check_on_set, unknown values appended once without it", floor=1)
    ctx.rule("R18.l", "instance-copy model (shared with R12.p): the per-instance copy of a Selector gets its own `names` mapping and `_objects` list (every mutable slot other than the default is "
                      "copied, OrderedDicts and empty containers included), so mutating one instance's objects never changes the class's or another instance's", floor=1)
    ctx.rule("R18.f", "outside ListProxy and the objects setter, _objects grows only in Selector._ensure_value_is_in_objects, which tests membership against the current objects for every single value", floor=1)
    ctx.rule("R18.q", "a wholesale replacement is announced: the comparator that decides whether a changes-only watcher of `objects` hears about it (Comparator.compare_iterator / "
                      "compare_mapping, interpreted on small containers) tells a list subclass -- the ListProxy the event carries as `old` -- from a plain list of the same elements, and a "
                      "dict from a dict subclass -- shared with R03.c", floor=1)
    from checks.shared import comparator_model
    comparator_model(ctx, "R18.q")
    ctx.rule("R18.r", "selector model, get_range: asked twice with a length-preserving in-place mutation of the objects in between, get_range describes the objects as they are at each call", floor=1)
    from checks import selector_model as _sm
    _sm.get_range_model(ctx, "R18.r")
    ctx.not_decided += ["consistency after arbitrary mutation sequences (follows from per-mutator pairing but is not executed)",
                        "list mutators that ListProxy does not override (sort, reverse, __delitem__, +=) -- reported as informational"]
    cls = ctx.repo.cls(LP)

    for m in MUTATORS:
        f = ctx.repo.method(LP, m)
        blocks = all_blocks(f.node)
        # ---------------- R18.a
        n_mut = 0
        bad = False
        for stmts, withs in blocks:
            proxy, objs, names = block_mutations(stmts)
            n_mut += len(proxy) + len(objs)
            a = Counter((op, args) for op, args, _ in proxy)
            b = Counter((op, args) for op, args, _ in objs)
            if a != b:
                bad = True
                only_p = list((a - b).elements())
                only_o = list((b - a).elements())
                st = (proxy + objs)[0][2]
                ctx.fail("R18.a", f, st,
                         "ListProxy.%s: the proxy list and _objects are not mutated in step in this block "
                         "(only on the proxy: %s; only on _objects: %s): the list view and the backing store diverge" % (
                             m, only_p or "-", only_o or "-"),
                         key="%s::unpaired::%s" % (f.qualname, (only_p + only_o)[0][0]))
        if m == "update":
            if n_mut:
                ctx.fail("R18.a", f, f.node, "ListProxy.update mutates a store directly instead of delegating to __setitem__")
            else:
                deleg = [c for c in ast.walk(f.node) if isinstance(c, ast.Call) and norm(c.func) == "self.__setitem__"]
                if deleg:
                    ctx.ok("R18.a", f, f.node, "update only delegates to __setitem__ (%d call(s))" % len(deleg))
                else:
                    ctx.fail("R18.a", f, f.node, "ListProxy.update neither mutates nor delegates")
        elif not bad:
            if n_mut == 0:
                ctx.fail("R18.a", f, f.node, "ListProxy.%s performs no recognisable mutation of the proxy/_objects" % m)
            else:
                ctx.ok("R18.a", f, f.node, "%d paired mutation(s) of proxy and _objects" % (n_mut // 2))
        # ---------------- R18.d
        dbad = False
        for stmts, withs in blocks:
            proxy, objs, names = block_mutations(stmts)
            trig = [w for w in withs if is_trigger_with(w)]
            for op, args, st in proxy + objs + names:
                if op == "rebind" and not trig and _is_names_init(st):
                    continue   # `names = _named_objs(self)`: upgrade of the naming before the mutation itself
                if len(trig) != 1:
                    dbad = True
                    ctx.fail("R18.d", f, st, "ListProxy.%s: `%s` is inside %d `with self._trigger(...)` scopes (exactly one notification per mutation is required)" % (m, norm(st)[:80], len(trig)),
                             key="%s::trigger-scope::%s" % (f.qualname, norm(st)[:60]))
            for st in stmts:
                if trig and not isinstance(st, (ast.If, ast.For, ast.While, ast.With, ast.Try)):
                    for c in (x for x in ast.walk(st) if isinstance(x, ast.Call)):
                        if isinstance(c.func, ast.Attribute) and isinstance(c.func.value, ast.Name) and c.func.value.id == "self" and c.func.attr in MUTATORS:
                            kw = {k.arg: k.value for k in c.keywords}
                            if not (isinstance(kw.get("trigger"), ast.Constant) and kw["trigger"].value is False):
                                dbad = True
                                ctx.fail("R18.d", f, st, "delegated call `%s` inside a notification scope does not pass trigger=False (watchers are notified twice)" % norm(c)[:80])
        if not dbad:
            ctx.ok("R18.d", f, f.node, "all store mutations inside exactly one notification scope")

    # ---------------- R18.b
    f = ctx.repo.method(LP, "pop")
    cfg = ctx.facts.cfg(f)
    for lbl, p in cfg.exit.pred:
        if p.kind == "stmt" and isinstance(p.ast, ast.Return) and p.ast.value is not None:
            v = p.ast.value
            ok = False
            if isinstance(v, ast.Name):
                defs = [n for n in cfg.live_nodes() if v.id in assigned_names(n)]
                ok = bool(defs) and all(any(isinstance(c.func, ast.Attribute) and c.func.attr == "pop" for c in calls_in(d)) for d in defs)
            elif isinstance(v, ast.Call) and isinstance(v.func, ast.Attribute) and v.func.attr == "pop":
                ok = True
            if ok:
                ctx.ok("R18.b", f, p, "returns the result of a .pop(...) on a store")
            else:
                ctx.fail("R18.b", f, p, "pop returns `%s`, which is not the result of removing from one of the stores" % norm(v))
        else:
            ctx.fail("R18.b", f, p, "ListProxy.pop can finish without returning the removed object (bare return / falling off the end after `%s`): "
                                    "one path returns the object, its sibling returns None" % p.text()[:60],
                     key="%s::returns-none" % f.qualname,
                     input="param.Selector(objects=[1,2,3]).objects.pop() returns None")

    # ---------------- R18.c
    for m in ("pop", "remove"):
        f = ctx.repo.method(LP, m)
        comps = [c for c in ast.walk(f.node) if isinstance(c, ast.DictComp)]
        found = False
        for dc in comps:
            for g in dc.generators:
                if not (isinstance(g.iter, ast.Call) and isinstance(g.iter.func, ast.Attribute) and g.iter.func.attr == "items"):
                    continue
                for cond in g.ifs:
                    if isinstance(cond, ast.Compare) and len(cond.ops) == 1 and isinstance(cond.ops[0], (ast.Is, ast.IsNot, ast.Eq, ast.NotEq)):
                        found = True
                        ref = cond.comparators[0] if isinstance(cond.comparators[0], ast.Name) else cond.left
                        from_store = False
                        if isinstance(ref, ast.Name):
                            defs = [st for st in ast.walk(f.node) if isinstance(st, ast.Assign) and any(isinstance(t, ast.Name) and t.id == ref.id for t in st.targets)]
                            from_store = bool(defs) and all(any(isinstance(c, ast.Call) and isinstance(c.func, ast.Attribute) and c.func.attr in ("pop", "__getitem__")
                                                                or isinstance(c, ast.Subscript) for c in ast.walk(d.value)) for d in defs)
                        if isinstance(cond.ops[0], (ast.IsNot, ast.NotEq)) and not from_store and isinstance(cond.ops[0], ast.IsNot):
                            ctx.fail("R18.c", f, dc, "ListProxy.%s prunes names by identity with its ARGUMENT `%s`, not with the element it actually removed from the stores: "
                                                     "removing with an equal but not identical object leaves a stale name" % (m, norm(ref)),
                                     key="%s::prune-by-argument-identity" % f.qualname,
                                     input="Selector(objects={'a': [1], 'b': [2]}).objects.remove([1]) -> names still has 'a'")
                        elif isinstance(cond.ops[0], (ast.IsNot, ast.NotEq)):
                            ctx.ok("R18.c", f, dc, "names rebuilt keeping entries with `%s` (reference taken from the stores)" % norm(cond))
                        else:
                            ctx.fail("R18.c", f, dc, "ListProxy.%s rebuilds names with the filter `%s`, which keeps ONLY the removed entry "
                                                     "(the sibling mutator keeps the others)" % (m, norm(cond)),
                                     key="%s::inverted-prune" % f.qualname,
                                     input="Selector(objects={'a':1,'b':2,'c':3}).objects.pop(0) -> names == {'a': 1}")
        # every rebuild of names in a remover must be a recognised prune
        from engine.loader import AnalysisError
        for st in ast.walk(f.node):
            if isinstance(st, ast.Assign) and any(names_store(t) for t in st.targets):
                if not isinstance(st.value, ast.DictComp):
                    ctx.info("R18.c", f, st, "ListProxy.%s rebuilds names with `%s`, which is not a filter of the old names by identity with the removed object: "
                                             "not decided by this structural rule; the ListProxy model (R18.j) decides it" % (m, norm(st.value)[:80]))
                    found = True
        if not found:
            # names updated by other means (e.g. names.pop(key)) -- acceptable when the removed key is deleted explicitly
            if any(isinstance(c, ast.Call) and isinstance(c.func, ast.Attribute) and names_store(c.func.value) and c.func.attr in ("pop",) for c in ast.walk(f.node)):
                ctx.ok("R18.c", f, f.node, "names pruned by key")
            else:
                ctx.fail("R18.c", f, f.node, "ListProxy.%s removes an object but never prunes names" % m)

    # ---------------- R18.e
    for q in ("param.parameters.Selector",):
        gr = ctx.repo.method(q, "get_range")
        src = {norm(a) for a in ast.walk(gr.node) if isinstance(a, ast.Attribute)}
        if "self._objects" in src and "self.names" in src or "self.objects" in src and "self.names" in src:
            ctx.ok("R18.e", gr, gr.node, "get_range reads _objects and names")
        else:
            ctx.fail("R18.e", gr, gr.node, "get_range does not read both _objects and names")
        vv = ctx.repo.method(q, "_validate_value")
        mem = [c for c in ast.walk(vv.node) if isinstance(c, ast.Compare) and any(isinstance(o, (ast.In, ast.NotIn)) for o in c.ops)]
        if any(norm(c.comparators[0]) in ("self.objects", "self._objects") for c in mem):
            ctx.ok("R18.e", vv, mem[0], "membership tested against the current objects")
        else:
            ctx.fail("R18.e", vv, vv.node, "Selector._validate_value does not test membership against self.objects/_objects")
        getter = ctx.repo.method(q, "objects")
        if any(isinstance(c, ast.Call) and norm(c.func) == "ListProxy" and c.args and norm(c.args[0]) == "self._objects" for c in ast.walk(getter.node)):
            ctx.ok("R18.e", getter, getter.node, "objects is a proxy built from _objects at call time")
        else:
            ctx.fail("R18.e", getter, getter.node, "the objects getter does not build the proxy from the current _objects")
        setter = ctx.repo.method(q, "objects", kind="setter")
        ok = True
        for stmts in _leaf_blocks(setter.node.body):
            tg = {t.attr for st in stmts if isinstance(st, ast.Assign) for t in st.targets if isinstance(t, ast.Attribute) and norm(t.value) == "self"}
            if not {"names", "_objects"} <= tg:
                ok = False
        if ok:
            ctx.ok("R18.e", setter, setter.node, "wholesale replacement assigns names and _objects together on every branch")
        else:
            ctx.fail("R18.e", setter, setter.node, "the objects setter does not assign both names and _objects on every branch")

    _rule_f(ctx)
    _rule_g(ctx)
    for m in ("__setitem__", "update", "append", "insert", "extend"):
        f = ctx.repo.method(LP, m)
        al = ctx.facts.local_aliases(f)

        def is_names(e):
            if isinstance(e, ast.Name) and e.id in al:
                e = al[e.id]
            return names_store(e)
        rem = [c for c in ast.walk(f.node) if isinstance(c, ast.Call) and isinstance(c.func, ast.Attribute) and c.func.attr in ("pop", "popitem", "clear") and is_names(c.func.value)] + \
              [d for d in ast.walk(f.node) if isinstance(d, ast.Delete) and any(isinstance(t, ast.Subscript) and is_names(t.value) for t in d.targets)]
        if rem:
            ctx.fail("R18.h", f, rem[0], "ListProxy.%s removes an entry from names (`%s`) and re-inserts it: a re-assigned existing key moves to the end of the name mapping, "
                                         "so names order no longer matches the list view and get_range()" % (m, norm(rem[0])[:60]), key="%s::names-entry-moved" % f.qualname,
                     input="Selector(objects={'a':1,'b':2,'c':3}).objects['a'] = 9 -> list(objects) == [9,2,3] but keys() == ['b','c','a']")
        else:
            ctx.ok("R18.h", f, f.node, "ListProxy.%s never removes from names" % m)
    overridden = set(cls.methods)
    for m in ("sort", "reverse", "__delitem__", "__iadd__", "__imul__"):
        if m not in overridden:
            ctx.info("R18.a", LP, None, "list.%s is not overridden by ListProxy (mutates only the transient proxy; not one of the listed mutators)" % m)


def _is_names_init(st):
    return isinstance(st, ast.Assign) and isinstance(st.value, ast.Call) and norm(st.value.func) == "_named_objs"


def _leaf_blocks(body):
    ifs = [st for st in body if isinstance(st, ast.If)]
    if not ifs:
        return [body]
    out = []
    rest = [st for st in body if not isinstance(st, ast.If)]
    for i in ifs:
        for b in (i.body, i.orelse):
            for leaf in _leaf_blocks(b):
                out.append(rest + leaf)
    return out


def _rule_f(ctx):
    allowed = {"param.parameters.Selector._ensure_value_is_in_objects"}
    n = 0
    for q in ctx.hier.descendants("param.parameters.SelectorBase"):
        for mname, fl in ctx.repo.classes[q].methods.items():
            f = fl[-1]
            for c in ast.walk(f.node):
                if isinstance(c, ast.Call) and isinstance(c.func, ast.Attribute) and c.func.attr in ("append", "extend", "insert", "__iadd__") \
                        and norm(c.func.value) == "self._objects":
                    n += 1
                    if f.qualname in allowed:
                        guard = any(isinstance(i, ast.If) and any(isinstance(o, ast.NotIn) for cmp_ in ast.walk(i.test) if isinstance(cmp_, ast.Compare) for o in cmp_.ops)
                                    and norm(i.test).endswith("self.objects") for i in ast.walk(f.node))
                        names_too = any(isinstance(a, ast.Attribute) and a.attr == "names" for a in ast.walk(f.node))
                        if guard and not names_too:
                            ctx.fail("R18.f", f, c, "the auto-append of an unknown value extends _objects but never names it: on a dict-declared Selector the name mapping "
                                                    "(objects.items()/keys()) no longer describes the objects the list view and get_range() show",
                                     key="%s::auto-append-unnamed" % f.qualname,
                                     input="Selector(objects={'a':1,'b':2}, check_on_set=False); p.x = 5 -> list(objects)==[1,2,5], names=={'a':1,'b':2}")
                        elif guard:
                            ctx.ok("R18.f", f, c, "single auto-append site, guarded by `val not in self.objects` (current objects)")
                        else:
                            ctx.fail("R18.f", f, c, "_ensure_value_is_in_objects appends without testing membership against the current self.objects")
                    else:
                        ctx.fail("R18.f", f, c, "`%s` grows _objects outside _ensure_value_is_in_objects: values are not checked one by one against the current objects "
                                                "(a value repeated in one assignment is appended twice; names/range diverge from the list)" % norm(c)[:70],
                                 key="%s::foreign-objects-append" % f.qualname,
                                 input="ListSelector(objects=[1,2], check_on_set=False); p.x = [9, 2, 9] -> objects == [1, 2, 9, 9]")
    ctx.require(n >= 1, "the auto-append of Selector._ensure_value_is_in_objects was not found")


def _rule_g(ctx):
    for m in ("extend", "__setitem__"):
        f = ctx.repo.method(LP, m)
        a = f.node.args
        params = [x.arg for x in a.args][1:]
        val = params[0] if m == "extend" else params[1]
        mats = [st for st in ast.walk(f.node) if isinstance(st, ast.Assign) and len(st.targets) == 1 and isinstance(st.targets[0], ast.Name)
                and st.targets[0].id == val and isinstance(st.value, ast.Call) and norm(st.value.func) in ("list", "tuple") and st.value.args
                and norm(st.value.args[0]) == val]
        shared = []
        for stmts, withs in all_blocks(f.node):
            proxy, objs, names = block_mutations(stmts)
            for op, args, st in proxy:
                if val in args and op in ("extend", "__setitem__"):
                    shared.append(st)
        if not shared:
            continue
        if m == "extend":
            ok = bool(mats)
        else:
            # only slice assignment iterates the value
            cfg = ctx.facts.cfg(f)
            ok = any(any("slice" in norm(e) and t is True for e, t in cfg.conditions(n)) for st in mats for n in cfg.nodes_of(st))
        if ok:
            ctx.ok("R18.g", f, mats[0], "`%s` is materialised before it feeds the proxy and _objects" % val)
        else:
            ctx.fail("R18.g", f, shared[0], "ListProxy.%s passes the same iterable `%s` to the proxy list and to _objects: an iterator/generator is exhausted by the first, "
                                            "so _objects receives nothing (or, for a slice, loses the replaced elements)" % (m, val),
                     key="%s::iterable-consumed-twice" % f.qualname,
                     input="Selector(objects=[1,2,3]).objects[0:2] = iter([7,8]) -> objects == [3]; objects.extend(x for x in [3,4]) changes nothing")

    # ---------------------------------------------------------------- R18.i
    tg = ctx.repo.method(LP if "LP" in globals() else "param.parameters.ListProxy", "_trigger")
    tcfg = ctx.facts.cfg(tg)
    ys = [n for n in tcfg.live_nodes() if n.suspend]
    ctx.require(ys, "ListProxy._trigger no longer yields")
    evs = [(n, c) for n in tcfg.live_nodes() for c in calls_in(n) if isinstance(c.func, ast.Attribute) and c.func.attr == "_trigger_event" and len(c.args) >= 3]
    ctx.require(evs, "ListProxy._trigger no longer calls _trigger_event(what, old, new)")
    MUTABLE_SLOTS = {"names", "_objects", "objects"}
    # slots that some ListProxy method REBINDS (a reference taken earlier then denotes the old container)
    rebound = set()
    for g in [x for fs in ctx.repo.cls(LP).methods.values() for x in fs]:
        for st in ast.walk(g.node):
            if isinstance(st, (ast.Assign, ast.AugAssign)):
                for t in (st.targets if isinstance(st, ast.Assign) else [st.target]):
                    if isinstance(t, ast.Attribute) and "_parameter" in norm(t.value):
                        rebound.add(t.attr)
    ctx.require(rebound, "no ListProxy method rebinds a container slot of its Parameter any more (R18.i has nothing to protect)")
    ctx.extra["R18.i_rebound_slots"] = sorted(rebound)
    for n, c in evs:
        old_e, new_e = c.args[1], c.args[2]
        stale = []
        # names the new value is built from, followed through the assignments made after the yield
        srcs, work = set(), [x.id for x in ast.walk(new_e) if isinstance(x, ast.Name)]
        while work:
            nm = work.pop()
            if nm in srcs:
                continue
            srcs.add(nm)
            for d in tcfg.live_nodes():
                if d.kind == "stmt" and isinstance(d.ast, ast.Assign) and any(isinstance(t, ast.Name) and t.id == nm for t in d.ast.targets) and not any(tcfg.dominates(d, y) for y in ys):
                    work.extend(x.id for x in ast.walk(d.ast.value) if isinstance(x, ast.Name))
        for nm in srcs:
            for d in tcfg.live_nodes():
                if d.kind != "stmt" or not isinstance(d.ast, ast.Assign) or not any(tcfg.dominates(d, y) for y in ys):
                    continue
                for t in d.ast.targets:
                    pairs = list(zip(t.elts, d.ast.value.elts)) if isinstance(t, (ast.Tuple, ast.List)) and isinstance(d.ast.value, (ast.Tuple, ast.List)) and len(t.elts) == len(d.ast.value.elts) else [(t, d.ast.value)]
                    for tt, vv in pairs:
                        if isinstance(tt, ast.Name) and tt.id == nm and any(isinstance(a, ast.Attribute) and a.attr in rebound for a in ast.walk(vv)):
                            stale.append((nm, norm(vv), d))
        # the old value must be a copy made before the yield
        old_ok = False
        if isinstance(old_e, ast.Name):
            for d in tcfg.live_nodes():
                if d.kind == "stmt" and isinstance(d.ast, ast.Assign) and any(isinstance(t, ast.Name) and t.id == old_e.id for t in d.ast.targets) and any(tcfg.dominates(d, y) for y in ys):
                    copies = [k for k in ast.walk(d.ast.value) if isinstance(k, ast.Call) and norm(k.func) in ("dict", "list", "OrderedDict", "copy.copy", "copy")]
                    bare = [a for a in ast.walk(d.ast.value) if isinstance(a, (ast.Attribute, ast.Name)) and (getattr(a, "attr", None) in MUTABLE_SLOTS)
                            and not any(a in list(ast.walk(k)) for k in copies)]
                    old_ok = bool(copies) and not bare
        if stale:
            nm, src, d = stale[0]
            ctx.fail("R18.i", tg, n, "the new value of the `objects` event is built from `%s`, bound to `%s` before the mutation ran: a mutator that rebinds that container (pop by index "
                                     "rebuilds names) is announced with the state before it -- unchanged old/new, so changes-only watchers are not notified at all" % (nm, src),
                     key=tg.qualname + "::new-value-read-before-yield", input="Selector(objects={'a': 1, 'b': 2}); watch 'objects'; objects.pop(0) -> no notification")
        elif not old_ok:
            ctx.fail("R18.i", tg, n, "the old value of the `objects` event (`%s`) is not a copy taken before the mutation: old and new are the same mutated container" % norm(old_e),
                     key=tg.qualname + "::old-value-not-a-copy")
        else:
            ctx.ok("R18.i", tg, n, "old = copy taken before the yield; new = `%s`, read after it" % norm(new_e))

    # model-level rule, run last
    from checks import listproxy_model
    listproxy_model.report(ctx, "R18.j")
    from checks.shared import slot_event_carries_assigned_value
    slot_event_carries_assigned_value(ctx, "R18.m")
    from checks import selector_model
    selector_model.report(ctx, "R18.k")
    selector_model.report_compute_default(ctx, "R18.s")
    selector_model.report_objects_setter(ctx, "R18.o")
    selector_model.report_named_objs(ctx, "R18.n")
    selector_model.redeclaration_model(ctx, "R18.p")
    # R18.w: the read side of the list view is list's own
    lp = ctx.repo.classes["param.parameters.ListProxy"]
    reads = ("__contains__", "__iter__", "__len__", "index", "count", "__reversed__")
    over = [m for m in reads if m in lp.methods]
    anyf = lp.methods["__getitem__"][0]
    if over:
        g = lp.methods[over[0]][0]
        ctx.fail("R18.w", g, g.node, "ListProxy overrides `%s`: membership, iteration and length of `.objects` are what validation and get_range() read; they must be those of the list of "
                                     "objects itself (a dictionary-style `in` makes every label an accepted value)" % over[0], key="param.parameters.ListProxy::read-protocol-overridden::%s" % over[0])
    else:
        ctx.ok("R18.w", anyf, None, "ListProxy inherits %s from list" % ", ".join(reads))
    from checks import setter_model
    setter_model.report(ctx, "C18", "R18.v")
    from checks import instcopy_model
    instcopy_model.report(ctx, "R18.l")
