"""C08 -- a linked parameter mirrors its reference until overridden (DESIGN §3/C08)."""
from __future__ import annotations

import ast

from engine.effects import store_field, walk_stmts
from engine.facts import calls_in, stores_in
from engine.loader import AnalysisError, norm

PARAMETERS = "param.parameterized.Parameters"
INIT = "param.parameterized.Parameterized.__init__"


def calls_named(node_or_ast, name):
    a = node_or_ast
    return [c for c in calls_in(a) if isinstance(c.func, ast.Attribute) and c.func.attr == name or isinstance(c.func, ast.Name) and c.func.id == name]


def rebuilds(ctx, f, n, depth=2) -> bool:
    """Does the node call _setup_refs (directly or through a resolved callee)?"""
    for c in calls_in(n):
        if isinstance(c.func, ast.Attribute) and c.func.attr == "_setup_refs":
            return True
        if depth > 0:
            for t in ctx.facts.resolve_call(c, f) or []:
                if t is f:
                    continue
                for st in walk_stmts(t.node):
                    if not isinstance(st, (ast.If, ast.For, ast.While, ast.With, ast.Try)) and rebuilds(ctx, t, st, depth - 1):
                        return True
    return False


def update_restorer_refs(ctx, rule):
    from engine.absint import Interp, Obj, Unsupported
    """`with obj.param.update(...)` relinks on exit whatever form the values are given in (shared by R08.f / R04.f)."""
    # `with obj.param.update(...)`: whatever form the values are given in, the restorer is told the
    # reference of every given parameter that is currently linked, so leaving the block relinks it
    up = ctx.repo.method(PARAMETERS, "update")
    ra, rb = Obj("ref_of_a"), Obj("pending_async_ref_of_b")
    va, vb, vc = Obj("value_a"), Obj("value_b"), Obj("value_c")
    UNDEF = Obj("Undefined")
    forms = {
        "update(a=.., b=.., c=..)": (UNDEF, {"a": va, "b": vb, "c": vc}),
        "update({a, b, c})": ({"a": va, "b": vb, "c": vc}, {}),
        "update({c}, a=.., b=..)": ({"c": vc}, {"a": va, "b": vb}),
        "update({a}, b=..)": ({"a": va}, {"b": vb}),
        "update([(a, ..), (b, ..)])": ([("a", va), ("b", vb)], {}),
        "update([(c, ..)], a=..)": ([("c", vc)], {"a": va}),
    }
    n_f, badf = 0, []
    for desc, (arg, kw) in forms.items():
        seen = {}

        def hook2(fn, args, kwargs):
            if fn == "_ParametersRestorer":
                seen["refs"] = kwargs.get("refs")
                return Obj("restorer")
            if fn.endswith("._update"):
                return {}
            if fn == "self_.values":
                return {"a": Obj("current_a"), "b": Obj("current_b"), "c": Obj("current_c")}
            return NotImplemented
        inst = Obj("target", _param__private=Obj("private", refs={"a": ra}, async_refs={"b": rb}))
        ns = Obj("ns", self=inst)
        it = Interp(ctx.hier, call_hook=hook2, globals={"Undefined": UNDEF}, strict_self_calls=True)
        try:
            outs = it.run_all(up, {"self_": ns, "arg": arg, "kwargs": dict(kw)})
        except Unsupported as e:
            raise AnalysisError("absint cannot interpret Parameters.update: %s -- the restorer rule cannot decide" % e)
        n_f += 1
        if len(outs) != 1 or outs[0].imprecise or outs[0].kind != "return":
            raise AnalysisError("absint imprecise on Parameters.update (%s): %s -- the restorer rule cannot decide" % (desc, outs[0].notes[:2] if outs else "no outcome"))
        given = set(kw) | (set(arg) if isinstance(arg, dict) else {k for k, _ in arg} if isinstance(arg, list) else set())
        want = {k: r for k, r in (("a", ra), ("b", rb)) if k in given}
        got = seen.get("refs")
        if not isinstance(got, dict) or set(got) != set(want) or any(got[k] is not want[k] for k in want):
            badf.append((desc, sorted(got) if isinstance(got, dict) else got, sorted(want)))
    ctx.abstract_cases += n_f
    if badf:
        ctx.fail(rule, up, up.node, "`with obj.param.%s` remembers the links of %s, specification %s (a is linked, b has a pending asynchronous reference): the parameter overridden "
                 "for the block gets its old plain value back on exit but not its link" % badf[0], key=up.qualname + "::restorer-refs",
                 input="t = T(x=s.param.v); with t.param.update({'y': 1}, x=5): pass; s.v = 7 -> t.x stays stale")
    else:
        ctx.ok(rule, up, up.node, "%d call forms (keywords, dict, dict+keywords, pairs, pairs+keywords): the restorer receives the reference of every given linked parameter" % n_f)


def run(ctx):
    ctx.rule("R08.x", "context-manager model: _batch_call_watchers, batch_call_watchers, discard_events, _syncing and edit_constant interpreted abstractly with the body of the `with` supplied at the `yield` (62 cases: entry state x body ends normally / raises x nesting x queues replaced in the body x Parameter copies made in the body): flag, queues, syncing set and constant flags are, after the block, what they were before; the flush runs iff outermost, after the restore, also when the body raised", floor=1)
    ctx.rule("R08.r", "update-context exit: _ParametersRestorer.__exit__ interpreted abstractly (3 cases) assigns back every recorded previous value -- also one identical to the current value -- and every remembered reference in one update, and forgets the record, also when that update raises", floor=1)
    ctx.rule("R08.b2", "bind model: the dependency extraction of param.bind, interpreted abstractly (generator expressions lazily, as Python does) on bind(f, N1, N2, P0, k1=N3, k2=P1) with nested references carrying positional and keyword dependencies: every dependency of every nested reference and every directly bound Parameter reaches depends(), each under its own key", floor=1)
    ctx.rule("R08.h", "flush model (shared with R03.h/R04.h): a source watcher queued in an open batch runs at the flush with its events, also when it has meanwhile been unwatched (a relink of a sibling rebuilds every source watcher of the object): otherwise the links that did not change miss the update", floor=1)
    ctx.rule("R08.a", "every function that removes or replaces an entry of the refs map rebuilds the ref watchers on the same path "
                      "(_setup_refs, directly or via a callee); a rebuild outside the constructor first unwatches and resets ref_watchers", floor=3)
    ctx.rule("R08.b", "every resolve_ref/resolve_value call in class Parameters that computes a link's dependencies or value passes recursive=<that parameter>.nested_refs", floor=5)
    ctx.rule("R08.c", "the sync's own writes (update in _sync_refs/_async_ref) happen inside a `with _syncing(...)` scope, and the setter reads the syncing set before deciding to drop a link", floor=3)
    ctx.rule("R08.v", "link model, _resolve_ref: interpreted on a plain value / a reference to ordinary, constant or mixed sources / a reference whose evaluation is skipped / a coroutine function / "
                      "an asynchronous generator / a coroutine bound to a parameter: everything with dependencies or asynchronous comes back as a reference (the assigned object, all its "
                      "dependencies), whatever kind of parameter the sources are; the value is the resolved one, Undefined when skipped, None while pending; scheduled once", floor=1)
    ctx.rule("R08.y", "Dynamic set model: Dynamic.__set__ interpreted (instance / class route; a number, a generator, a callable reference resolving to a number or to a generator): generator state is "
                      "attached to the value that was stored when it is a callable, never to the reference itself (a bound method cannot carry it: the assignment would raise after the store "
                      "and the link)", floor=1)
    ctx.rule("R08.p", "invalidation before consumers: every internal watcher that only invalidates an expression's cache (rx._invalidate_*) is registered with a precedence strictly lower than "
                      "every internally installed consumer (the sync of references, depends(watch=True) callers), so that within one batch no consumer reads a cache whose invalidation is still queued", floor=2)
    ctx.rule("R08.w", "link model, resolve_ref: interpreted for a depends method used as a reference whose string specs name a sub-object's parameter and the owner's own parameters in every "
                      "order (plus a keyword spec and a Parameter object): each spec is resolved relative to the method's owner; the result is exactly the Parameters named", floor=1)
    ctx.rule("R08.z", "the body of every `with _syncing(...)` holds no suspension point: an override made while an evaluation is pending must be seen as an override (ends the link) -- "
                      "the same structural fact as R10.a, decided here for the link's lifetime", floor=3)
    ctx.rule("R08.u", "dispatch model, snapshot: inside a batch Parameters._call_watcher queues a watcher at its first event also when an event for the same parameter is already queued for another watcher (a link made in the middle of a batch must sync), and records the later event", floor=1)
    ctx.rule("R08.d", "every reference is installed: in Parameter.__set__ the relink decision holds whenever _resolve_ref returned a reference (top-level disjunct `ref is not None`), "
                      "and the constructor records refs[name] = ref under exactly `ref is not None`", floor=2)
    ctx.rule("R08.e", "_sync_refs re-resolves exactly the links one of whose dependencies matches one of the delivered events by (owner identity, name) -- decided by abstract "
                      "interpretation on every non-empty event subset of a two-parameter source with three links (exhaustive for that configuration)", floor=1)
    ctx.rule("R08.j", "a parameter linked to an expression with an asynchronous step holds the result of the LATEST source state (shared with R10.g): a synchronously computed result resets the "
                      "ownership token of a pending evaluation", floor=1)
    ctx.rule("R08.i", "(shared with R10.c) in reactive.py every write of the cached result after a suspension point is guarded by `self._current_task is task`, and the task is registered before "
                      "the first suspension: of two evaluations started in the same tick the older one cannot publish last", floor=2)
    ctx.rule("R08.q", "rx reference transform: _rx_transform interpreted on a root expression over a bound function of one Parameter (same shape as `p.rx()` apart from `_fn`): the reference "
                      "evaluates the expression, it is not the bare Parameter", floor=1)
    ctx.rule("R08.o", "nested references are resolved at every depth: resolve_value (with the real resolve_ref) interpreted on [[P, 0]], {'a': {'v': P}}, ([P],), [P, [P]] returns the same shape "
                      "with the source's current value in place of the Parameter", floor=1)
    ctx.rule("R08.n", "update model (shared with R02.u): Parameters._update -- through which _sync_refs pushes every linked parameter a source event affects -- assigns each key once and never "
                      "writes an accepted key back when a later one is rejected; a key given the object it already holds still reaches the setter", floor=1)
    ctx.rule("R08.f", "the update context manager relinks on exit: Parameters.update, interpreted abstractly on six call forms (keywords / dict / dict+keywords / pairs / pairs+keywords), "
                      "hands the restorer the stored reference of every given parameter that has a link or a pending asynchronous reference", floor=1)
    ctx.rule("R08.g", "param's own write-backs never end a link: every update()/_update() call made by the library on a parameter namespace (other than forwarding the caller's own arguments) "
                      "is inside `with _syncing(...)`, or hands the saved references back (**refs), or is on the class-level branch (classes hold no links)", floor=5)
    ctx.rule("R08.m", "setter model: Parameter.__set__ interpreted abstractly on every combination (576) of route x constant/readonly x validation outcome x identity x reference mode x watchers x batching agrees with the specification of this property (see checks/setter_model.py)", floor=1)
    ctx.rule("R08.l", "link model: Parameters._update_ref with _setup_refs interpreted abstractly (parameter x/y/new x None / reference on a new source / on an already watched source / asynchronous reference x pending tasks, 48 cases): every old source watcher unwatched once on its own object, the pending task of that parameter cancelled and deregistered (others untouched), refs replaced/removed, exactly one recorded watcher per source of the new table watching exactly its dependency names", floor=1)
    ctx.rule("R08.k", "constructor model: Parameters._setup_params (with _instantiate_param) interpreted abstractly on 288 combinations of keywords x reference modes (plain value / reference with a value / reference without a value yet / asynchronous reference) x an unknown keyword: own copy of every instantiate=True default and pinned constants before any keyword is applied (and still there when a keyword assigns nothing), exactly the specified assignments, every reference and only references recorded", floor=1)
    ctx.rule("R08.t", "trigger model: Parameters.trigger interpreted abstractly (instance/class x names incl. an Event and an unknown name x an event and a watcher queued before x the update dispatches / queues / raises, 96 cases): update runs once, with the trigger flag raised and the parked queues empty, on the current values; on exit the flag is lowered, earlier queue entries survive, no watcher is queued twice; the write-back is inside a _syncing scope", floor=1)
    ctx.not_decided += ["that the parameter equals the reference's resolved value after arbitrary source histories (needs execution)"]

    # ----------------------------------------------------------- R08.a
    writers = 0
    for f in ctx.repo.all_funcs("param.parameterized"):
        if "refs" not in ast.unparse(f.node):
            continue
        aliases = ctx.facts.local_aliases(f)
        cfg = None
        for st in walk_stmts(f.node):
            if isinstance(st, (ast.If, ast.For, ast.While, ast.With, ast.Try, ast.FunctionDef)):
                continue
            hit = None
            for t in stores_in(st):
                if store_field(ctx.facts, t, aliases) == "private.refs":
                    hit = "delete" if isinstance(st, ast.Delete) else "store"
            for c in (x for x in ast.walk(st) if isinstance(x, ast.Call)):
                if isinstance(c.func, ast.Attribute) and c.func.attr in ("pop", "clear", "update", "popitem", "setdefault") \
                        and ctx.facts.field_of(c.func.value, aliases) == "private.refs":
                    hit = "mutate"
            if hit is None:
                continue
            if f.cls is not None and f.cls.name in ("_InstancePrivate",):
                continue
            writers += 1
            cfg = cfg or ctx.facts.cfg(f)
            wn = cfg.nodes_of(st)
            ok = False
            for w in wn:
                for n in cfg.live_nodes():
                    if n is not w and rebuilds(ctx, f, n) and (cfg.dominates(n, w) or cfg.postdominates(n, w)):
                        ok = True
            if ok:
                ctx.ok("R08.a", f, st, "refs %s is paired with a rebuild of the ref watchers on every path" % hit)
            else:
                ctx.fail("R08.a", f, st,
                         "`%s` changes the refs map but the watchers installed on the sources are not torn down and rebuilt on this path: "
                         "the old source keeps a watcher on the parameter's behalf" % norm(st),
                         input="t = T(n=s.param.v); t.n = 8  ->  s.param.watchers still lists the _sync_refs watcher")
    ctx.require(writers >= 2, "fewer than 2 writers of the refs map found (%d)" % writers)
    for f in ctx.repo.all_funcs("param.parameterized"):
        if f.qualname == INIT:
            continue
        cfg = None
        for st in walk_stmts(f.node):
            if isinstance(st, ast.Expr) and calls_named(st, "_setup_refs") and f.name != "_setup_refs":
                cfg = cfg or ctx.facts.cfg(f)
                aliases = ctx.facts.local_aliases(f)
                for n in cfg.nodes_of(st):
                    unw = [m for m in cfg.live_nodes() if m.kind == "stmt" and calls_named(m, "unwatch") and cfg.dominates(m, n)]
                    in_loop = any(any(isinstance(t, ast.For) and "ref_watchers" in norm(t.iter) for t in _enclosing(f.node, m.ast)) for m in unw)
                    loops = [m for m in cfg.live_nodes() if m.kind == "iter" and "ref_watchers" in norm(m.stmt.iter) and cfg.dominates(m, n)
                             and any(calls_named(b, "unwatch") for b in ast.walk(m.stmt) if isinstance(b, ast.stmt))]
                    reset = [m for m in cfg.live_nodes() if cfg.dominates(m, n) and any(
                        store_field(ctx.facts, t, aliases) == "private.ref_watchers" and isinstance(t, ast.Attribute) for t in stores_in(m))]
                    if loops and reset:
                        ctx.ok("R08.a", f, st, "rebuild is preceded by the unwatch loop over ref_watchers and the reset of the list")
                    else:
                        ctx.fail("R08.a", f, st, "ref watchers are rebuilt without first %s: watchers accumulate on the sources" % (
                            "unwatching the old ones" if not loops else "resetting ref_watchers"),
                            key="%s::rebuild-without-teardown" % f.qualname)

    # ----------------------------------------------------------- R08.b
    pcls = ctx.repo.cls(PARAMETERS)
    n_sites = 0
    for mname, fl in pcls.methods.items():
        f = fl[-1]
        local_defs = {}
        for st in ast.walk(f.node):
            if isinstance(st, ast.Assign) and len(st.targets) == 1 and isinstance(st.targets[0], ast.Name):
                local_defs.setdefault(st.targets[0].id, []).append(st.value)
        for c in ast.walk(f.node):
            if not (isinstance(c, ast.Call) and isinstance(c.func, ast.Name) and c.func.id in ("resolve_ref", "resolve_value")):
                continue
            n_sites += 1
            rec = None
            if len(c.args) >= 2:
                rec = c.args[1]
            for k in c.keywords:
                if k.arg == "recursive":
                    rec = k.value
            ok = False
            if rec is not None:
                exprs = [rec]
                if isinstance(rec, ast.Name):
                    exprs = local_defs.get(rec.id, [])
                ok = bool(exprs) and all(isinstance(e, ast.Attribute) and e.attr == "nested_refs" for e in exprs)
            if ok:
                ctx.ok("R08.b", f, c, "%s(..., recursive=<param>.nested_refs)" % c.func.id)
            else:
                ctx.fail("R08.b", f, c,
                         "`%s` computes a link's %s without recursive=<parameter>.nested_refs: references nested in a container are %s" % (
                             norm(c)[:70], "dependencies" if c.func.id == "resolve_ref" else "value",
                             "not followed when the link is made by a later assignment" if rec is None else "resolved with a flag that is not the parameter's nested_refs"),
                         input="t.l = [s.param.v, 10] assigned after construction never follows s.v (nested_refs=True)")
    ctx.require(n_sites >= 5, "fewer than 5 resolve_ref/resolve_value sites found in class Parameters (%d)" % n_sites)

    # ----------------------------------------------------------- R08.c
    for mname in ("_sync_refs", "_async_ref"):
        f = ctx.repo.method(PARAMETERS, mname)
        ups = []
        for st in walk_stmts(f.node):
            if isinstance(st, (ast.If, ast.For, ast.While, ast.With, ast.Try, ast.AsyncFor, ast.AsyncWith)):
                continue
            if any(isinstance(c.func, ast.Attribute) and c.func.attr == "update" and norm(c.func.value) == "self_" for c in ast.walk(st) if isinstance(c, ast.Call)):
                ups.append(st)
        ctx.require(ups, "%s no longer writes through self_.update" % f.qualname)
        for st in ups:
            ws = [w for w in _enclosing(f.node, st) if isinstance(w, (ast.With, ast.AsyncWith))
                  and any(isinstance(i.context_expr, ast.Call) and norm(i.context_expr.func) == "_syncing" for i in w.items)]
            if ws:
                ctx.ok("R08.c", f, st, "sync write inside `with _syncing(...)`")
            else:
                ctx.fail("R08.c", f, st, "the sync's own write `%s` is not inside a `with _syncing(...)` scope: the setter takes it for a user override and drops the link" % norm(st)[:60])
    setter = ctx.repo.method("param.parameterized.Parameter", "__set__")
    reads = [a for a in ast.walk(setter.node) if isinstance(a, ast.Attribute) and a.attr == "syncing"]
    if reads:
        ctx.ok("R08.c", setter, reads[0], "the setter consults the syncing set")
    else:
        ctx.fail("R08.c", setter, setter.node, "Parameter.__set__ no longer consults the syncing set: every propagated update drops the link")

    # ----------------------------------------------------------- R08.d
    st_ = ctx.repo.method("param.parameterized.Parameter", "__set__")
    scfg = ctx.facts.cfg(st_)
    rl = [n for n in scfg.live_nodes() for c in calls_in(n) if isinstance(c.func, ast.Attribute) and c.func.attr in ("_relink", "_update_ref")]
    ctx.require(rl, "Parameter.__set__ no longer installs links (_relink/_update_ref)")
    from engine.facts import reaching_defs
    for n in rl:
        guards = [d for d in scfg.dominating(n) if d.kind == "br" and d.polarity is True and isinstance(d.ast, ast.Name)]
        okd = False
        why = "the link installation is not guarded by a relink flag"
        for gd in guards[:1]:
            defs = [d for d in reaching_defs(scfg, gd, gd.ast.id) if isinstance(d.ast, ast.Assign)]
            exprs = []
            for d in defs:
                v = d.ast.value
                if isinstance(d.ast.targets[0], ast.Tuple) and isinstance(v, ast.Tuple):
                    for a, b in zip(d.ast.targets[0].elts, v.elts):
                        if isinstance(a, ast.Name) and a.id == gd.ast.id:
                            v = b
                exprs.append(v)
            live = [e for e in exprs if not (isinstance(e, ast.Constant) and e.value is False)]
            okd = bool(live) and all(isinstance(e, ast.BoolOp) and isinstance(e.op, ast.Or) and any(norm(v) in ("ref is not None",) for v in e.values) for e in live)
            if not okd:
                why = "the relink decision `%s` does not hold for every reference returned by _resolve_ref (no top-level disjunct `ref is not None`): some assigned references are not (re)installed" % (
                    norm(live[0]) if live else "?")
        if okd:
            ctx.ok("R08.d", st_, n, "relink holds whenever a reference was assigned")
        else:
            ctx.fail("R08.d", st_, n, why, key=st_.qualname + "::conditional-relink",
                     input="nested_refs: assign the same (mutated) container again -> newly contained sources are never watched")
    from checks.shared import ctor_records_every_ref
    ctor_records_every_ref(ctx, "R08.d")

    # ----------------------------------------------------------- R08.e
    import itertools
    from engine.absint import Interp, Obj, Unsupported
    from engine.loader import AnalysisError
    sr = ctx.repo.method(PARAMETERS, "_sync_refs")
    S, S2 = Obj("source"), Obj("other_source")
    dep = {"x": Obj("dep_S_a", owner=S, name="a"), "y": Obj("dep_S_b", owner=S, name="b"), "z": Obj("dep_S2_a", owner=S2, name="a")}
    refobj = {k: Obj("ref_" + k) for k in dep}
    all_events = [("a", Obj("event_a", obj=S, name="a")), ("b", Obj("event_b", obj=S, name="b"))]
    n_cases, bad = 0, []
    SKIP = Obj("Skip")
    for r in (1, 2):
      for skipping in (None, "x", "y"):
        for combo in itertools.permutations(all_events, r):
            evs = [e for _, e in combo]
            got = {}

            def hook(fn, args, kwargs):
                if fn == "resolve_ref":
                    for k, ro in refobj.items():
                        if args and args[0] is ro:
                            return [dep[k]]
                    return []
                if fn == "resolve_value":
                    for k, ro in refobj.items():
                        if args and args[0] is ro:
                            if k == skipping:
                                # this reference (a bind / depends function) raises Skip for the current values
                                from engine.absint import _Raise
                                raise _Raise("Skip")
                            return Obj("value_" + k)
                    return Obj("value_?")
                if fn in ("inspect.isgeneratorfunction", "iscoroutinefunction"):
                    return False
                if fn in ("edit_constant", "_syncing"):
                    return Obj("scope")
                if fn.endswith(".update") and fn.startswith("self_"):
                    got.update(args[0] if args and isinstance(args[0], dict) else {})
                    return None
                return NotImplemented
            inst = Obj("target", _param__private=Obj("private", refs={k: refobj[k] for k in ("x", "y", "z")}))
            ns = Obj("ns", self=inst)
            it = Interp(ctx.hier, call_hook=hook, globals={"Skip": SKIP, "Undefined": Obj("Undefined")})
            try:
                outs = it.run_all(sr, {"self_": ns, "events": evs})
            except Unsupported as e:
                raise AnalysisError("absint cannot interpret _sync_refs: %s -- R08.e cannot decide" % e)
            n_cases += 1
            for o in outs:
                if o.imprecise:
                    raise AnalysisError("absint imprecise on _sync_refs (%s): %s -- R08.e cannot decide" % ([n for n, _ in combo], o.notes[:2]))
            want = {"x"} if [n for n, _ in combo] == ["a"] else ({"y"} if [n for n, _ in combo] == ["b"] else {"x", "y"})
            want -= {skipping}
            if any(o.kind != "return" for o in outs):
                bad.append(([n for n, _ in combo], "an exception (%s)" % outs[0].value, sorted(want), skipping))
            elif set(got) != want:
                bad.append(([n for n, _ in combo], sorted(got), sorted(want), skipping))
    ctx.abstract_cases += n_cases
    if bad:
        ctx.fail("R08.e", sr, sr.node, "with events %s from one source _sync_refs re-resolves the links %s, specification %s%s: a link whose source parameter changed in the same batch "
                                       "as another is skipped and keeps a stale value" % (bad[0][0], bad[0][1], bad[0][2], " (the reference of %s raises Skip: that parameter alone is left as it is)" % bad[0][3] if bad[0][3] else ""),
                 key=sr.qualname + "::event-matching",
                 input="t = T(x=s.param.a, y=s.param.b); s.param.update(a=2, b=2) -> t.x stays stale")
    else:
        ctx.ok("R08.e", sr, sr.node, "%d/%d event sets: exactly the links with a matching dependency are re-resolved (a link on another owner with the same name is not)" % (n_cases, n_cases))

    update_restorer_refs(ctx, "R08.f")
    from checks.c10 import rx_latest_wins
    rx_latest_wins(ctx, "R08.j", "R08.i")
    from checks import update_model
    update_model.report(ctx, "C08", "R08.n")
    from checks.c09 import nested_references_are_resolved
    nested_references_are_resolved(ctx, "R08.o")
    rx_reference_transform(ctx, "R08.q")

    from checks.shared import flush_model
    flush_model(ctx, "R08.h")
    from checks import bind_model
    bind_model.report(ctx, "R08.b2")
    from checks.shared import restorer_model
    restorer_model(ctx, "R08.r")
    from checks.shared import syncing_set_replaced
    syncing_set_replaced(ctx, "R08.c")
    # ------------------------------------------------------------- R08.g
    from engine.effects import walk_stmts as _ws
    n_g = 0
    for g in ctx.repo.all_funcs("param.parameterized"):
        if g.cls is None or g.cls.name not in ("Parameters", "_ParametersRestorer"):
            continue
        gcfg = None
        for c in [x for x in ast.walk(g.node) if isinstance(x, ast.Call) and isinstance(x.func, ast.Attribute) and x.func.attr in ("update", "_update")
                  and norm(x.func.value) in ("self_", "self._parameters")]:
            n_g += 1
            argnames = {x.id for a in list(c.args) + [k.value for k in c.keywords] for x in ast.walk(a) if isinstance(x, ast.Name)}
            own = set(g.params)
            if argnames and argnames <= own and all(isinstance(a, ast.Name) for a in list(c.args) + [k.value for k in c.keywords]):
                ctx.ok("R08.g", g, c, "forwards the caller's own arguments (a user-driven assignment)")
                continue
            in_sync = any(isinstance(w, ast.With) and any(isinstance(i.context_expr, ast.Call) and norm(i.context_expr.func) == "_syncing" for i in w.items)
                          and any(x is c for x in ast.walk(w)) for w in ast.walk(g.node))
            hands_refs = any(isinstance(k, ast.keyword) and k.arg is None and "refs" in norm(k.value) for x in ast.walk(c) if isinstance(x, ast.Call) for k in x.keywords)
            gcfg = gcfg or ctx.facts.cfg(g)
            cn = [n for n in gcfg.live_nodes() if n.kind == "stmt" and n.ast is not None and any(x is c for x in ast.walk(n.ast))]
            class_level = bool(cn) and any(t is True and norm(e) == "self_.self is None" for e, t in gcfg.conditions(cn[0]))
            if in_sync or hands_refs or class_level:
                ctx.ok("R08.g", g, c, "write-back %s" % ("inside `with _syncing`" if in_sync else "hands the saved references back" if hands_refs else "on the class-level branch"))
            else:
                ctx.fail("R08.g", g, c, "`%s` writes values back through the setter outside any `_syncing` scope and without the saved references: for a linked parameter the setter takes "
                                        "the write-back for an override and removes the link, so the parameter silently stops following its source" % norm(c)[:70],
                         key="%s::write-back-ends-link" % g.qualname, input="t = T(x=s.param.v); t.param.trigger('x'); s.v = 3 -> t.x keeps the old value")
    ctx.require(n_g >= 5, "fewer than 5 internal update()/_update() call sites found (%d)" % n_g)

    # the scope that marks the sync's own writes must itself be exception safe
    # (an instance of R05.a/R05.b on the syncing set): a leaked marker makes every
    # later override look like a sync write, so the link never ends
    from checks.c05 import find_scopes
    sc = [x for x in find_scopes(ctx) if x.fld == "private.syncing"]
    ctx.require(sc, "no function toggles the syncing set")
    for x in sc:
        bad = None
        orig_ids = {w.id for w in x.orig}
        if not x.temp:
            import ast as _ast
            inplace = [c for c in _ast.walk(x.f.node) if isinstance(c, _ast.Call) and isinstance(c.func, _ast.Attribute) and c.func.attr in ("update", "add", "__ior__")
                       and norm(c.func.value).endswith("_param__private.syncing")]
            if not inplace:
                raise AnalysisError("R08.c: %s restores the syncing set but no write that marks the names was recognised" % x.f.qualname)
            ctx.fail("R08.c", x.f, inplace[0], "%s marks the names by mutating the syncing set in place: the set saved for the restore is that very object, so the marker is never removed and "
                                               "later plain assignments are taken for sync writes" % x.f.name, key="%s::syncing-in-place" % x.f.qualname)
            continue
        if not x.orig:
            bad = x.temp[0]
        for wt in x.temp:
            for r in x.cfg.reachable_from([wt], stop=lambda n: n.id in orig_ids, labels={"n", "t", "f"}):
                if r.may_raise and r.id not in orig_ids and x.protected(r) is None:
                    bad = bad or r
        if bad is not None:
            ctx.fail("R08.c", x.f, bad, "the syncing marker set by %s is not removed when `%s` raises: the name stays marked as syncing, later plain assignments are taken "
                                        "for sync writes and never end the link" % (x.f.name, bad.text()[:60]), key="%s::syncing-leak" % x.f.qualname,
                     input="source pushes a value the target rejects (ValueError), then t.a = 7, then the source changes -> a is overwritten, link still alive")
        else:
            ctx.ok("R08.c", x.f, x.temp[0], "the syncing marker is removed on every exit of the scope")

    # model-level rule, run last (see DESIGN §10)
    from checks import setter_model
    setter_model.report(ctx, "C08", "R08.m")
    from checks import ctor_model
    ctor_model.report(ctx, "C08", "R08.k")
    from checks import link_model
    link_model.report(ctx, "C08", "R08.l")
    link_model.report_resolve(ctx, "R08.v")
    from checks import dispatch_model
    dispatch_model.snapshot_model(ctx, "R08.u", "C08")
    link_model.report_resolve_ref(ctx, "R08.w")
    # the syncing scope holds no suspension point (shared with R10.a)
    from checks.c10 import is_syncing_with, SUSPEND, walk_no_nested
    from engine.effects import walk_stmts as _ws
    n_sc = 0
    for f_ in ctx.repo.all_funcs("param"):
        for st in _ws(f_.node):
            if isinstance(st, (ast.With, ast.AsyncWith)) and is_syncing_with(st):
                n_sc += 1
                susp = [s_ for b_ in st.body for s_ in walk_no_nested(b_) if isinstance(s_, SUSPEND)]
                if susp:
                    ctx.fail("R08.z", f_, st, "`%s` keeps the name marked as syncing across `%s`: a plain value assigned while the evaluation is suspended is taken for the sync's own write, "
                                              "so the override neither ends the link nor removes the source watcher, and the pending result overwrites it" % (
                                                  norm(st.items[0].context_expr), norm(susp[0])[:60]), key="%s::suspension-in-syncing" % f_.qualname)
                else:
                    ctx.ok("R08.z", f_, st, "no suspension point inside the syncing scope")
    ctx.require(n_sc >= 3, "fewer than 3 syncing scopes found (%d)" % n_sc)
    from checks.shared import invalidation_before_consumers
    invalidation_before_consumers(ctx, "R08.p")
    from checks.shared import dynamic_set_model
    dynamic_set_model(ctx, "R08.y")
    from checks import trigger_model
    trigger_model.report(ctx, "C08", "R08.t")
    from checks import cm_model
    cm_model.report(ctx, "C08", "R08.x")


def _enclosing(fnode, target):
    out = []

    def visit(node, stack):
        if node is target:
            out.extend(stack)
            return True
        for ch in ast.iter_child_nodes(node):
            if visit(ch, stack + [node]):
                return True
        return False
    visit(fnode, [])
    return out



def rx_reference_transform(ctx, rule):
    """_rx_transform (the reference transform that lets an `allow_refs` parameter follow a reactive expression) interpreted on
    a ROOT expression without operation that wraps (a) a plain Parameter (`p.rx()`) and (b) a bound / depends FUNCTION of one
    Parameter (`rx(bind(f, p))`): both have exactly one dependency and look alike from `_prev` / `_operation` / `_method`.

    Specification: for (b) the reference handed back evaluates the expression (a function built with `bind` over the
    expression's parameters); the bare Parameter would make the linked parameter hold x instead of f(x)."""
    from engine.absint import Interp, Obj, Unsupported
    f = ctx.repo.func("param.reactive._rx_transform")
    P_ = Obj("Parameter_x", __kind__="Parameter")
    made = []

    def hook(fn, args, kwargs):
        if fn == "isinstance" and len(args) == 2:
            return isinstance(args[0], Obj) and args[0].attrs.get("__kind__") == ("rx" if args[1] == "rx" else "Parameter")
        if fn == "bind" and args:
            b = Obj("bound_function_evaluating_the_expression", args=tuple(args[1:]))
            made.append(b)
            return b
        if fn == "len" and len(args) == 1 and isinstance(args[0], (list, tuple)):
            return len(args[0])
        return NotImplemented
    problems = []
    for desc, fnval in (("rx(bind(f, p)) -- a root over a function of one Parameter", Obj("bound_function_f_of_x")), ("p.rx() -- a root over the Parameter itself", None)):
        expr = Obj("root_expression", __kind__="rx", _params=[P_], _prev=None, _operation=None, _method=None, _wrapper=None, _fn=fnval, _fn_params=[P_] if fnval is not None else [],
                   _internal_params=[P_], _obj=None, _shared_obj=[None], _trigger=None, _kwargs={})
        it = Interp(ctx.hier, call_hook=hook, globals={"rx": "rx", "Parameter": "Parameter"})
        try:
            outs = it.run_all(f, {f.params[0]: expr})
        except Unsupported as e:
            raise AnalysisError("%s: absint cannot interpret _rx_transform: %s" % (rule, e))
        if len(outs) != 1 or outs[0].imprecise or outs[0].kind != "return":
            raise AnalysisError("%s: _rx_transform is not interpretable precisely (%s)" % (rule, outs[0].notes[:2] if outs else "no outcome"))
        ctx.abstract_cases += 1
        r = outs[0].value
        if fnval is not None and (r is P_ or not any(r is b for b in made)):
            problems.append("%s: the transform hands back %s instead of a function that evaluates the expression: a parameter linked to it mirrors the raw parameter x, not f(x)" % (
                desc, getattr(r, "name", r)))
    if problems:
        ctx.fail(rule, f, f.node, "rx reference transform: %s" % problems[0], key=f.qualname + "::root-over-a-function", input="t.v = param.rx(bind(lambda x: x * 10, s.param.x)) -> t.v == s.x instead of s.x * 10")
    else:
        ctx.ok(rule, f, f.node, "rx reference transform: a root expression over a function is referenced through a function that evaluates the expression")
