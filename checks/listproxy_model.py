"""ListProxy model (C18): every mutator of ListProxy interpreted abstractly.

State: the list view (the proxy itself), ``parameter._objects`` and
``parameter.names``, over small stores of abstract elements (three distinct
objects, plus an *equal but not identical* twin of one of them).  Each mutator
is run from an unnamed and from a named state and compared with what Python's
list / dict semantics prescribe for that operation:

* the list view and ``_objects`` hold the same objects in the same order;
* when names exist, ``names.values()`` is the list view (same objects, same
  order) and the keys are as specified (a re-assigned key keeps its position, a
  new key goes to the end, a removed object loses exactly its keys);
* ``pop`` returns the object it removed; an operation that raises leaves all
  three stores as they were.

List-style growth of a *named* selector (append / insert / extend / integer
item assignment, which the library itself reports as deprecated) is modelled
too, with the weaker specification "every object of the list view has some
label"; on the pinned tree it does not (one known finding, same root cause as
R18.f).  Notification (one scope per mutator, new value read after the
mutation) is decided by R18.d / R18.i.
"""
from __future__ import annotations

import copy as _copy

from engine.absint import Interp, Obj, Unsupported, _Raise
from engine.loader import AnalysisError

LP = "param.parameters.ListProxy"
T_INT, T_SLICE, T_DICT, T_SEQ = "<type int>", "<type slice>", "<type dict>", "<type Sequence>"


def _mk_state(named, n=3):
    x, y, z = Obj("x", label="x"), Obj("y", label="y"), Obj("z", label="z")
    for o in (x, y, z):
        o.attrs["__eqclass__"] = "value-of-" + o.name
    elems = [x, y, z][:n]
    keys = ["a", "b", "c"][:n]
    param = Obj("selector", _objects=list(elems), names=dict(zip(keys, elems)) if named else {}, watchers={})
    proxy = Obj("proxy", _parameter=param, view=list(elems))
    proxy.attrs["__bool__"] = lambda: bool(proxy.attrs["view"])
    return proxy, param, elems


def _hook_for(proxy):
    view = lambda: proxy.attrs["view"]

    def hook(fn, args, kwargs):
        it = hook.interp
        if fn.startswith("super()."):
            m = fn.split(".", 1)[1]
            if m == "__setitem__" and len(args) == 2:
                if not isinstance(args[0], int) or not (-len(view()) <= args[0] < len(view())):
                    raise _Raise("IndexError")
                view()[args[0]] = args[1]
                return None
            if m == "__getitem__" and len(args) == 1 and isinstance(args[0], int):
                if not (-len(view()) <= args[0] < len(view())):
                    raise _Raise("IndexError")
                return view()[args[0]]
            if m == "append" and len(args) == 1:
                view().append(args[0])
                return None
            if m == "__delitem__" and len(args) == 1 and isinstance(args[0], int):
                if not (-len(view()) <= args[0] < len(view())):
                    raise _Raise("IndexError")
                del view()[args[0]]
                return None
            if m == "__len__" and not args:
                return len(view())
            if m in ("insert", "pop", "remove", "clear", "extend", "index", "copy", "count"):
                return it.list_method(view(), m, list(args))
            raise Unsupported("super().%s of the list view" % m)
        if fn == "self.index" and len(args) == 1:
            return it.list_method(view(), "index", list(args))
        if fn == "self._trigger":
            # _trigger(trigger=True): a scope that notifies the watchers of `objects` when it closes (False: an inner call)
            flag = args[0] if args else kwargs.get("trigger", True)
            if flag is not False:
                proxy.attrs["__notifying_scopes__"] = proxy.attrs.get("__notifying_scopes__", 0) + 1
            return Obj("notification_scope")
        if fn == "self._warn":
            return None
        if fn == "_named_objs" and len(args) == 1:
            seq = view() if args[0] is proxy else args[0]
            return {o.attrs["label"]: o for o in seq}
        if fn == "isinstance" and len(args) == 2:
            spec = args[1] if isinstance(args[1], tuple) else (args[1],)
            a = args[0]
            ok = False
            for t in spec:
                if t == T_INT:
                    ok = ok or (isinstance(a, int) and not isinstance(a, bool))
                elif t == T_SLICE:
                    ok = ok or False
                elif t == T_DICT:
                    ok = ok or isinstance(a, dict)
                elif t == T_SEQ:
                    ok = ok or isinstance(a, (tuple, list, str))
                else:
                    raise Unsupported("isinstance against %r" % (t,))
            return ok
        return NotImplemented
    return hook


GLOBALS = {"Undefined": Obj("Undefined"), "int": T_INT, "slice": T_SLICE, "dict": T_DICT,
           "collections": Obj("collections", abc=Obj("collections.abc", Sequence=T_SEQ, Mapping=T_DICT, MutableMapping=T_DICT))}
NOT_INLINED = {"_trigger", "_warn"}


def _run(ctx, method, named, call_args, n=3, kw=None, prep=None):
    proxy, param, elems = _mk_state(named, n)
    if prep:
        prep(proxy, param, elems)
    f = ctx.repo.method(LP, method)
    hook = _hook_for(proxy)
    it = Interp(ctx.hier, dyn=LP, inline=lambda m: m not in NOT_INLINED, call_hook=hook, globals=dict(GLOBALS), strict_self_calls=True)
    hook.interp = it
    before = (list(proxy.attrs["view"]), list(param.attrs["_objects"]), dict(param.attrs["names"]))
    a = f.node.args
    pos = [x.arg for x in a.posonlyargs + a.args][1:]
    env = {f.params[0]: proxy}
    args = call_args(elems) if callable(call_args) else list(call_args)
    if a.vararg:
        env[a.vararg.arg] = tuple(args[len(pos):])
    for nme, v in zip(pos, args):
        env[nme] = v
    # defaults of the remaining positional parameters
    defaults = dict(zip(pos[len(pos) - len(a.defaults):], a.defaults))
    for nme in pos[len(args):]:
        if nme in defaults:
            env[nme] = it.eval(defaults[nme], {}, f)
    if a.kwarg:
        env[a.kwarg.arg] = dict(kw or {})
    outs = it.run_all(f, env)
    if len(outs) != 1 or outs[0].imprecise:
        raise AnalysisError("ListProxy model: %s is not interpretable precisely (%s)" % (method, outs[0].notes[:2] if outs else "no outcome"))
    return outs[0], proxy, param, elems, before


def _ids(seq):
    return [getattr(o, "name", o) for o in seq]


def model(ctx):
    """Returns (n_cases, [(description, problem)])."""
    problems, n = [], 0
    new, new2 = Obj("n", label="n"), Obj("m", label="m")
    twin = lambda elems: Obj("equal_twin_of_y", label="y", __eqclass__="value-of-y")

    def check(desc, method, named, args, exp_view, exp_names, exp_ret="-", exp_raise=None, nn=3, kw=None, group=None, prep=None, unnamed_extra=False):
        nonlocal n
        if group:
            desc = group + " :: " + desc
        try:
            o, proxy, param, elems, before = _run(ctx, method, named, args, nn, kw, prep)
        except Unsupported as e:
            raise AnalysisError("ListProxy model: absint cannot interpret ListProxy.%s: %s" % (method, e))
        n += 1
        view, objs, names = proxy.attrs["view"], param.attrs["_objects"], param.attrs["names"]
        if not (isinstance(view, list) and isinstance(objs, list) and isinstance(names, dict)) or any(not isinstance(v, Obj) for v in list(view) + list(objs) + list(names.values())):
            raise AnalysisError("ListProxy model: after %s the interpreter no longer knows the stores exactly (view=%r, _objects=%r, names=%r) -- cannot decide" % (desc, view, objs, names))
        if exp_raise:
            if o.kind != "raise":
                problems.append((desc, "does not raise (specification: %s)" % exp_raise))
            elif (view, objs, names) != (before[0], before[1], before[2]) or any(a is not b for a, b in zip(view, before[0])):
                problems.append((desc, "raises but leaves view=%s _objects=%s names=%s (before: %s / %s / %s)" % (
                    _ids(view), _ids(objs), sorted(names), _ids(before[0]), _ids(before[1]), sorted(before[2]))))
            return
        if o.kind != "return":
            problems.append((desc, "raises %s (specification: succeeds)" % getattr(o, "what", o.kind)))
            return
        scopes = proxy.attrs.get("__notifying_scopes__", 0)
        if scopes != 1:
            problems.append((desc, "opens %d notifying scope(s): the watchers of `objects` are told %s, specification once per mutation%s" % (
                scopes, "%d times" % scopes if scopes else "nothing", " (the second event's `old` is an intermediate state nobody asked for)" if scopes > 1 else "")))
        ev = exp_view(elems)
        en = exp_names(elems)
        if len(view) != len(ev) or any(a is not b for a, b in zip(view, ev)):
            problems.append((desc, "the list view is %s, specification %s" % (_ids(view), _ids(ev))))
        if len(objs) != len(view) or any(a is not b for a, b in zip(objs, view)):
            problems.append((desc, "_objects is %s but the list view is %s" % (_ids(objs), _ids(view))))
        if en is None:
            # any labels will do, but every object of the list view needs one
            if len(names) != len(view) or any(a is not b for a, b in zip(names.values(), view)):
                problems.append((desc, "names.values() %s is not the list view %s: items()/keys()/values() no longer describe the objects" % (_ids(names.values()), _ids(view))))
        elif not isinstance(names, dict) or list(names) != list(en) or any(names[k] is not en[k] for k in en):
            problems.append((desc, "names is %s, specification %s" % (
                {k: getattr(v, "name", v) for k, v in names.items()} if isinstance(names, dict) else names, {k: v.name for k, v in en.items()})))
        elif names and not unnamed_extra and (len(names) != len(view) or any(a is not b for a, b in zip(names.values(), view))):
            problems.append((desc, "names.values() %s is not the list view %s" % (_ids(names.values()), _ids(view))))
        if exp_ret != "-":
            want = exp_ret(elems)
            if o.value is not want:
                problems.append((desc, "returns %r, specification %r" % (o.value, want)))

    NONE = lambda e: {}
    ABC = lambda e: {"a": e[0], "b": e[1], "c": e[2]}
    AUTO = lambda e: {"x": e[0], "y": e[1], "z": e[2]}
    # ---- unnamed selector: list-style mutators
    check("[x, y, z].append(n)", "append", False, [new], lambda e: e + [new], NONE)
    check("[x, y, z].insert(1, n)", "insert", False, [1, new], lambda e: [e[0], new, e[1], e[2]], NONE)
    check("[x, y, z].insert(0, n)", "insert", False, [0, new], lambda e: [new] + e, NONE)
    check("[x, y, z].extend([n, m])", "extend", False, [[new, new2]], lambda e: e + [new, new2], NONE)
    check("[x, y, z].pop()", "pop", False, [], lambda e: e[:2], NONE, lambda e: e[2])
    check("[x, y, z].pop(0)", "pop", False, [0], lambda e: e[1:], NONE, lambda e: e[0])
    check("[x, y, z].pop(1)", "pop", False, [1], lambda e: [e[0], e[2]], NONE, lambda e: e[1])
    check("[x, y, z].pop(7)", "pop", False, [7], None, None, exp_raise="IndexError")
    check("[x, y, z].remove(y)", "remove", False, lambda e: [e[1]], lambda e: [e[0], e[2]], NONE)
    check("[x, y, z].remove(<equal to y, not identical>)", "remove", False, lambda e: [twin(e)], lambda e: [e[0], e[2]], NONE)
    check("[x, y, z].remove(n)", "remove", False, [new], None, None, exp_raise="ValueError")
    check("[x, y, z].clear()", "clear", False, [], lambda e: [], NONE)
    check("[x, y, z][1] = n", "__setitem__", False, [1, new], lambda e: [e[0], new, e[2]], NONE)
    check("[x, y, z][-1] = n", "__setitem__", False, [-1, new], lambda e: [e[0], e[1], new], NONE)
    check("[x, y, z]['k'] = n", "__setitem__", False, ["k", new], lambda e: e + [new], lambda e: dict(AUTO(e), k=new))
    check("[x, y, z].update({'k': n})", "update", False, [{"k": new}], lambda e: e + [new], lambda e: dict(AUTO(e), k=new))
    check("[x, y, z].pop('a')", "pop", False, ["a"], None, None, exp_raise="ValueError")
    check("[]['k'] = n", "__setitem__", False, ["k", new], lambda e: [new], lambda e: {"k": new}, nn=0)
    # ---- named selector: dictionary-style mutators and removals
    check("{a: x, b: y, c: z}['b'] = n", "__setitem__", True, ["b", new], lambda e: [e[0], new, e[2]], lambda e: {"a": e[0], "b": new, "c": e[2]})
    check("{a: x, b: y, c: z}['k'] = n", "__setitem__", True, ["k", new], lambda e: e + [new], lambda e: dict(ABC(e), k=new))
    # an existing label re-pointed at an object that EQUALS the current one without being it (a fresh dataclass instance, a tuple):
    # every store holds the new object afterwards (pop / remove prune the labels by identity with the list element)
    TW = Obj("equal_twin_of_y", label="y", __eqclass__="value-of-y")
    check("{a: x, b: y, c: z}['b'] = <equal to y, not identical>", "__setitem__", True, ["b", TW], lambda e: [e[0], TW, e[2]], lambda e: {"a": e[0], "b": TW, "c": e[2]})
    check("{a: x, b: y, c: z}.update({'b': n, 'k': m})", "update", True, [{"b": new, "k": new2}], lambda e: [e[0], new, e[2], new2],
          lambda e: {"a": e[0], "b": new, "c": e[2], "k": new2})
    check("{a: x, b: y, c: z}.update([('k', n)], b=m)", "update", True, [[("k", new)]], lambda e: [e[0], new2, e[2], new],
          lambda e: {"a": e[0], "b": new2, "c": e[2], "k": new}, kw={"b": new2})
    check("{a: x, b: y, c: z}.pop('b')", "pop", True, ["b"], lambda e: [e[0], e[2]], lambda e: {"a": e[0], "c": e[2]}, lambda e: e[1])
    check("{a: x, b: y, c: z}.pop('a')", "pop", True, ["a"], lambda e: e[1:], lambda e: {"b": e[1], "c": e[2]}, lambda e: e[0])
    check("{a: x, b: y, c: z}.pop('zz')", "pop", True, ["zz"], None, None, exp_raise="KeyError")
    check("{a: x, b: y, c: z}.pop(0)", "pop", True, [0], lambda e: e[1:], lambda e: {"b": e[1], "c": e[2]}, lambda e: e[0])
    check("{a: x, b: y, c: z}.pop(1)", "pop", True, [1], lambda e: [e[0], e[2]], lambda e: {"a": e[0], "c": e[2]}, lambda e: e[1])
    check("{a: x, b: y, c: z}.pop()", "pop", True, [], lambda e: e[:2], lambda e: {"a": e[0], "b": e[1]}, lambda e: e[2])
    check("{a: x, b: y, c: z}.remove(y)", "remove", True, lambda e: [e[1]], lambda e: [e[0], e[2]], lambda e: {"a": e[0], "c": e[2]})
    check("{a: x, b: y, c: z}.remove(<equal to y, not identical>)", "remove", True, lambda e: [twin(e)], lambda e: [e[0], e[2]], lambda e: {"a": e[0], "c": e[2]})
    check("{a: x, b: y, c: z}.remove(n)", "remove", True, [new], None, None, exp_raise="ValueError")
    check("{a: x, b: y, c: z}.clear()", "clear", True, [], lambda e: [], NONE)
    check("{a: x}.pop('a')", "pop", True, ["a"], lambda e: [], NONE, lambda e: e[0], nn=1)
    # ---- a label re-pointed when the list holds an object WITHOUT a label in front (the state list-style growth leaves behind):
    # the slot replaced is the one that holds the label's current object, wherever it sits in the list
    front = Obj("unnamed_object_in_front", label="u")

    def with_unnamed_front(proxy, param, elems):
        proxy.attrs["view"].insert(0, front)
        param.attrs["_objects"].insert(0, front)
    check("[u, x, y, z] labelled {a: x, b: y, c: z} ['b'] = n", "__setitem__", True, ["b", new], lambda e: [front, e[0], new, e[2]], lambda e: {"a": e[0], "b": new, "c": e[2]},
          prep=with_unnamed_front, unnamed_extra=True)
    # ---- list-style growth of a named selector (the library logs a deprecation warning and goes on)
    G = "list-style growth of a dict-declared selector"
    ANY = lambda e: None
    check("{a: x, b: y, c: z}.append(n)", "append", True, [new], lambda e: e + [new], ANY, group=G)
    check("{a: x, b: y, c: z}.insert(1, n)", "insert", True, [1, new], lambda e: [e[0], new, e[1], e[2]], ANY, group=G)
    check("{a: x, b: y, c: z}.extend([n, m])", "extend", True, [[new, new2]], lambda e: e + [new, new2], ANY, group=G)
    check("{a: x, b: y, c: z}[1] = n", "__setitem__", True, [1, new], lambda e: [e[0], new, e[2]], ANY, group=G)
    return n, problems


def report(ctx, rule, objects_only=False):
    """objects_only: only what concerns the LIST of objects a Selector validates against (for properties that are not about
    the labels)."""
    # one model run per check run (never keyed by id(): ids are reused after garbage collection)
    memo = ctx.__dict__.setdefault('_model_memo', {})
    if 'listproxy_model' not in memo:
        memo['listproxy_model'] = model(ctx)
    n, problems = memo['listproxy_model']
    ctx.abstract_cases += n
    cls = ctx.repo.cls(LP)
    if objects_only:
        problems = [(d, w) for d, w in problems if w.startswith("the list view is") or w.startswith("_objects is") or w.startswith("raises") or w.startswith("does not raise")]
    if not problems:
        ctx.ok(rule, LP, None, "ListProxy model: %d operations from unnamed and named states agree with list/dict semantics (view = _objects = names.values(), keys, return values, failed operations leave no trace)" % n)
        return
    seen = set()
    for desc, what in problems:
        k = "%s::listproxy-model::%s" % (LP, desc.split(" :: ")[0] if " :: " in desc else desc)
        if k in seen:
            continue
        seen.add(k)
        ctx.fail(rule, LP, None, "ListProxy model: %s: %s" % (desc, what), key=k, input=desc)
