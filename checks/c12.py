"""C12 -- instances and classes do not leak into each other (DESIGN §3/C12)."""
from __future__ import annotations

import ast

from engine.cfg import cond_holds
from engine.effects import store_field, walk_stmts
from engine.facts import calls_in, stores_in
from engine.hierarchy import PARAMETER
from engine.loader import AnalysisError, norm

P = "param.parameterized."


def run(ctx):
    ctx.rule("R12.t", "class-based context managers restore on every path: every attribute that __enter__ assigns (shared_parameters._share: while it is on, new instances share their instantiate=True values instead of copying them) is assigned again on every path through __exit__", floor=1)
    ctx.rule("R12.v", "instance or class is decided by identity: no boolean-context use (if / and / or / not / conditional expression) of the namespace's instance (`self_.self` or a local alias) in "
                      "class Parameters, nor of `obj` in the descriptor methods of Parameter types -- an instance of a class defining __len__ / __bool__ may be falsy and is still an instance", floor=40)
    ctx.rule("R12.w", "who may write a class default: the only explicit `<Parameter>.__set__(None, value)` call is the metaclass's own (on the Parameter found in the class's OWN __dict__, after "
                      "the copy for an inheriting subclass was installed); everything else assigns through setattr(cls, name, value), so a subclass that only inherits the Parameter gets its "
                      "copy first and the ancestor's default is never written through it", floor=1)
    ctx.rule("R12.u", "mutable-container model: the predicate that decides which slot values are copied for per-instance Parameters and on inheritance (_is_mutable_container) is True for every "
                      "mutable container -- dict / list subclasses (OrderedDict, defaultdict) and non-builtin ones (deque) included", floor=1)
    ctx.rule("R12.x", "what an instance holds stays held: no function in param removes an entry from the per-instance value store (del values[name], values.pop, values.clear, "
                      "rebinding of `.values` outside the constructor of the private namespace) -- an entry identical to the class default may be an explicit assignment, and dropping it "
                      "makes the instance follow later class-level sets", floor=1)
    ctx.rule("R12.y", "the uninitialized window is the constructor's alone: the as_uninitialized wrapper (while it is in force, `.param[...]` hands out the CLASS-level Parameter instead of "
                      "creating the per-instance copy) decorates only _set_name, _generate_name and _setup_params -- never code that runs user callbacks, whose edits of "
                      "`self.param.<p>.<attr>` would land on the class", floor=3)
    ctx.rule("R12.a", "in every Parameter method that receives `obj`, each write to self.default / a class-level slot lies on paths where `obj is None` holds (the instance route never writes class storage)", floor=4)
    ctx.rule("R12.b", "per-instance Parameter objects have a single producer: only _instantiated_parameter writes <instance>._param__private.params[key], and it writes the result of _instantiate_param_obj", floor=1)
    ctx.rule("R12.c", "_instantiate_param_obj returns a copy.copy of the class Parameter, gives it fresh watchers and re-copies every mutable-container slot other than default", floor=3)
    ctx.rule("R12.d", "every __set__ definition of a Parameter class carries @instance_descriptor; the wrapper delegates to the per-instance Parameter and returns", floor=4)
    ctx.rule("R12.g", "class-level assignment on a subclass copies the inherited Parameter into the subclass before setting (copy-on-write)", floor=1)
    ctx.rule("R12.l", "instantiate=True is inherited whatever the Parameter types are: the superclass loop of __param_inheritance, interpreted abstractly on a superclass Parameter with "
                      "instantiate True / False x the new Parameter's type being or not being related to it, sets param.instantiate iff the ancestor has it (otherwise a subclass that narrows the "
                      "type shares the mutable default between the class and all instances)", floor=1)
    ctx.rule("R12.n", "param's own write-backs do not turn an inherited default into an instance value: no method of the namespace other than update/_update themselves writes back, through "
                      "update(), values taken from self_.values() -- which reports the class default for every parameter the instance never set, so the write-back stores it on the instance", floor=1)
    ctx.rule("R12.p", "instance-copy model: _instantiate_param_obj and _instantiated_parameter interpreted abstractly (17 cases): the per-instance Parameter is a fresh object owned by the instance with "
                      "its own empty watcher table, the class-level default, and its own container for every other mutable slot; it is created once and handed out only for an initialized instance of a "
                      "per_instance Parameter whose class has not disabled instance Parameters", floor=1)
    ctx.rule("R12.q", "namespace model (shared with R13.h): under every history of up to 3 class-level operations on A <- B <- C (and 2 on a diamond), a class-level assignment changes what that "
                      "class and the classes below it (up to the next override) see, and nothing that an ancestor or a sibling sees; every class's lookup finds the Parameter that governs it", floor=1)
    ctx.rule("R12.r", "instance Parameter objects never enter the class's lookup: the class-level `.param` memo (handed out by reference by objects(instance=False)) is never mutated in place, "
                      "directly or through a local alias (shared with R13.f)", floor=1)
    ctx.rule("R12.m", "setter model: Parameter.__set__ interpreted abstractly on every combination (576) of route x constant/readonly x validation outcome x identity x reference mode x watchers x batching agrees with the specification of this property (see checks/setter_model.py)", floor=1)
    ctx.rule("R12.k", "constructor model: Parameters._setup_params (with _instantiate_param) interpreted abstractly on 288 combinations of keywords x reference modes (plain value / reference with a value / reference without a value yet / asynchronous reference) x an unknown keyword: own copy of every instantiate=True default and pinned constants before any keyword is applied (and still there when a keyword assigns nothing), exactly the specified assignments, every reference and only references recorded", floor=1)
    ctx.rule("R12.u2", "update model (shared with R05.m): the transient Event mode that Parameters._update switches for the keys it assigns is switched on the instance's OWN Parameter objects "
                       "(`self_[name]`), never on the class-level ones shared with the other instances", floor=1)
    ctx.rule("R12.b2", "Number.set_in_bounds(obj, val) assigns on `obj` (its own argument), never on the Parameter's owner", floor=1)
    ctx.rule("R12.e", "an instance that never set a parameter follows the class default in EVERY reader (shared with R13.g): get_value_generator / inspect_value fall back to the class-level "
                      "Parameter's default, not to the default frozen on a per-instance copy", floor=1)
    ctx.rule("R12.j", "a constructor keyword does not change the class: the one validator that extends the Parameter it runs on (Selector._ensure_value_is_in_objects) must not run on the "
                      "class-level Parameter -- composed from three facts of the source (the in-place append; per-instance copies only for initialised instances; keywords applied before the "
                      "instance is marked initialised)", floor=1)
    ctx.rule("R12.h", "a shared (instantiate=False) default is not mutated from a constructor: in numbergen's _initialize_random_state every path to the in-place seeding of "
                      "self.random_generator passes a rebinding to a fresh private state (path conditions enumerated)", floor=1)
    ctx.rule("R12.i", "instance-copy model: ParameterizedFunction.instance called on an existing instance hands the constructor the source's value of EVERY parameter but its name (one "
                      "equal to the class default included -- the copy owns it and does not follow later class-level changes) plus the overrides", floor=1)
    ctx.rule("R12.s", "per-object state is per object: no class body in param / numbergen binds a mutable container to an attribute that a method mutates in place through self (one list "
                      "shared by all instances: what one object saves, another restores into its own parameter values) -- shared with R19.s", floor=1)
    from checks.shared import no_shared_mutable_class_state
    no_shared_mutable_class_state(ctx, "R12.s")
    ctx.not_decided += ["order-dependent histories (whether the per-instance copy existed before a class-level change) -- the rules make them irrelevant but the behavioural statement is not executed"]

    # ------------------------------------------------------------ R12.a
    n_writes = 0
    for q in ctx.hier.parameter_classes():
        for mname, fl in ctx.repo.classes[q].methods.items():
            f = fl[-1]
            if "obj" not in f.params or f.is_overload:
                continue
            if not any(isinstance(a, ast.Attribute) and a.attr in ("default",) and isinstance(a.ctx, ast.Store) for a in ast.walk(f.node)) \
                    and "_set_instantiate" not in ast.unparse(f.node) and "setattr(" not in ast.unparse(f.node):
                continue
            cfg = ctx.facts.cfg(f)
            for n in cfg.live_nodes():
                hit = None
                for t in stores_in(n):
                    if isinstance(t, ast.Attribute) and t.attr == "default" and norm(t.value) == "self":
                        hit = "self.default"
                for c in calls_in(n):
                    if norm(c.func) == "self._set_instantiate":
                        hit = "self._set_instantiate(...)"
                    if norm(c.func) == "setattr" and c.args:
                        tgt = c.args[0]
                        al = ctx.facts.local_aliases(f)
                        if isinstance(tgt, ast.Name) and tgt.id in al:
                            tgt = al[tgt.id]
                        if norm(tgt) in ("self.owner", "self.objtype", "type(obj)", "obj.__class__"):
                            hit = "setattr(%s, ...)" % norm(tgt)
                if hit is None:
                    continue
                n_writes += 1
                conds = cfg.conditions(n)
                if cond_holds(conds, "obj is None", True):
                    ctx.ok("R12.a", f, n, "%s only when obj is None" % hit)
                else:
                    ctx.fail("R12.a", f, n, "`%s` writes class-level storage on a path that is also taken for instance assignments "
                                            "(no `obj is None` on the path): setting the value on one instance changes the class default" % n.text())
    ctx.require(n_writes >= 4, "fewer than 4 class-storage writes found in obj-receiving Parameter methods (%d)" % n_writes)

    # ------------------------------------------------------------ R12.b
    prod = ctx.repo.func(P + "_instantiated_parameter")
    writers = 0
    for f in ctx.repo.all_funcs("param"):
        for st in walk_stmts(f.node):
            if not isinstance(st, (ast.Assign, ast.AugAssign)):
                continue
            for t in stores_in(st):
                if isinstance(t, ast.Subscript) and isinstance(t.value, ast.Attribute) and t.value.attr == "params" \
                        and isinstance(t.value.value, ast.Attribute) and t.value.value.attr == "_param__private":
                    root = norm(t.value.value.value)
                    if root in ("cls", "mcs", "self_.cls") or root.startswith("type("):
                        continue
                    writers += 1
                    if f is prod and isinstance(st.value, ast.Call) and norm(st.value.func) == "_instantiate_param_obj":
                        ctx.ok("R12.b", f, st, "the single producer stores _instantiate_param_obj(...)")
                    elif f is prod:
                        ctx.fail("R12.b", f, st, "_instantiated_parameter stores `%s`, not a fresh copy from _instantiate_param_obj" % norm(st.value))
                    else:
                        ctx.fail("R12.b", f, st, "`%s` installs a per-instance Parameter outside _instantiated_parameter" % norm(st)[:90])
    ctx.require(writers >= 1, "the per-instance Parameter store in _instantiated_parameter was not recognised")

    # ------------------------------------------------------------ R12.c
    g = ctx.repo.func(P + "_instantiate_param_obj")
    arg = g.params[0]
    copies = [st for st in walk_stmts(g.node) if isinstance(st, ast.Assign) and isinstance(st.value, ast.Call)
              and norm(st.value.func) in ("copy.copy",) and st.value.args and norm(st.value.args[0]) == arg]
    rets = [st for st in walk_stmts(g.node) if isinstance(st, ast.Return)]
    if copies and rets and all(isinstance(r.value, ast.Name) and r.value.id == copies[0].targets[0].id for r in rets):
        pv = copies[0].targets[0].id
        ctx.ok("R12.c", g, copies[0], "returns copy.copy(%s)" % arg)
        w = [st for st in walk_stmts(g.node) if isinstance(st, ast.Assign) and any(isinstance(t, ast.Attribute) and t.attr == "watchers" and norm(t.value) == pv for t in st.targets)]
        if w and isinstance(w[0].value, ast.Dict) and not w[0].value.keys:
            ctx.ok("R12.c", g, w[0], "fresh watchers dict")
        else:
            ctx.fail("R12.c", g, g.node, "the per-instance copy keeps the class Parameter's watchers dict (shared by reference)")
        loops = [st for st in walk_stmts(g.node) if isinstance(st, ast.For) and "_all_slots_" in norm(st.iter)]
        ok = False
        for lp in loops:
            for s2 in ast.walk(lp):
                if isinstance(s2, ast.If) and "_is_mutable_container" in norm(s2.test):
                    from engine.cfg import decompose as _dec
                    atoms = [(norm(e), t) for e, t in _dec(s2.test, True) if not isinstance(e, ast.BoolOp)]
                    narrowing = [a for a in atoms if not (a[0].startswith("_is_mutable_container(") and a[1] is True)
                                 and not (a[0] in ("s != 'default'", "s == 'default'") )]
                    if narrowing or not any(a[0].startswith("_is_mutable_container(") and a[1] for a in atoms):
                        ctx.fail("R12.c", g, s2, "the re-copy of mutable slot values is restricted by an extra condition (%s): some mutable containers "
                                                 "(e.g. an empty objects list) stay shared between the class Parameter and its per-instance copies" % (
                                                     ", ".join("%s is %s" % a for a in narrowing) or norm(s2.test)),
                                 key="%s::narrowed-slot-copy" % g.qualname,
                                 input="Selector(objects=[]) on a class; inst.param.s.objects.append(1) -> the class Parameter's objects change too")
                        ok = None
                        continue
                    sets = [c for b in s2.body for c in ast.walk(b) if isinstance(c, ast.Call) and norm(c.func) == "setattr"
                            and len(c.args) == 3 and isinstance(c.args[2], ast.Call) and norm(c.args[2].func) in ("copy.copy", "copy.deepcopy")]
                    if sets:
                        ok = True
        if ok is None:
            pass
        elif ok:
            ctx.ok("R12.c", g, loops[0], "every mutable-container slot is re-copied")
        else:
            ctx.fail("R12.c", g, g.node, "mutable slot values (bounds lists, objects, ...) of the per-instance Parameter are shared with the class Parameter",
                     key="%s::shared-mutable-slots" % g.qualname)
    else:
        ctx.fail("R12.c", g, g.node, "_instantiate_param_obj does not return a copy.copy of its argument: instance and class share one Parameter object",
                 key="%s::no-copy" % g.qualname)

    # ------------------------------------------------------------ R12.d
    for f in ctx.hier.overrides(PARAMETER, "__set__"):
        if f.has_decorator("instance_descriptor"):
            ctx.ok("R12.d", f, f.node, "@instance_descriptor")
        else:
            ctx.fail("R12.d", f, f.node, "%s is not decorated with @instance_descriptor: instance assignments are validated against and stored through the CLASS Parameter" % f.qualname)
    w = ctx.repo.func(P + "instance_descriptor._f")
    wc = ctx.facts.cfg(w)
    deleg = [n for n in wc.live_nodes() for c in calls_in(n) if isinstance(c.func, ast.Attribute) and c.func.attr == "__set__"
             and [norm(a) for a in c.args] == ["obj", "val"]]
    mk = [n for n in wc.live_nodes() for c in calls_in(n) if norm(c.func) == "_instantiated_parameter"]
    if deleg and mk and all(cond_holds(wc.conditions(n), "obj is not None", True) or cond_holds(wc.conditions(n), "obj is None", False) for n in deleg):
        nxt = [t for d in deleg for l, t in d.succ if l == "n"]
        if nxt and all(t.kind == "stmt" and isinstance(t.ast, ast.Return) and t.ast.value is None for t in nxt):
            ctx.ok("R12.d", w, deleg[0], "delegates to the per-instance Parameter's __set__ and returns")
        else:
            ctx.fail("R12.d", w, deleg[0], "after delegating to the per-instance Parameter the wrapper falls through to the class Parameter's setter as well")
    else:
        ctx.fail("R12.d", w, w.node, "instance_descriptor no longer creates/looks up the per-instance Parameter and delegates to it for instance assignments",
                 key="%s::no-delegation" % w.qualname)

    # R12.e (shape of the two loops in _setup_params and of the copier selection in _instantiate_param) was replaced
    # by the constructor model R12.k: the shape rule rejected behaviour-preserving rewrites (explicit deepcopy=True,
    # one loop instead of two), the model interprets both functions.
    # ------------------------------------------------------------ R12.g
    ms = ctx.repo.func(P + "ParameterizedMetaclass.__setattr__")
    mc = ctx.facts.cfg(ms)
    sets = [n for n in mc.live_nodes() for c in calls_in(n) if isinstance(c.func, ast.Attribute) and c.func.attr == "__set__" and c.args and norm(c.args[0]) == "None"]
    ctx.require(sets, "metaclass __setattr__ no longer delegates to the descriptor's __set__(None, value)")
    installs = [n for n in mc.live_nodes() for c in calls_in(n) if norm(c.func) == "type.__setattr__" and len(c.args) == 3 and isinstance(c.args[2], ast.Name)]
    cow = []
    for n in installs:
        c = [c for c in calls_in(n) if norm(c.func) == "type.__setattr__"][0]
        v = c.args[2].id
        defs = [m for m in mc.live_nodes() if m.kind == "stmt" and isinstance(m.ast, ast.Assign) and any(isinstance(t, ast.Name) and t.id == v for t in m.ast.targets)
                and mc.dominates(m, n)]
        if any(isinstance(m.ast.value, ast.Call) and norm(m.ast.value.func) in ("copy.copy", "copy.deepcopy") for m in defs) and \
                cond_holds(mc.conditions(n), "owning_class != mcs", True):
            cow.append(n)
    if cow and all(any(any(r is s for r in mc.reachable_from([n])) for n in cow) for s in sets):
        ctx.ok("R12.g", ms, cow[0], "an inherited Parameter is copied into the subclass (owning_class != mcs) before __set__(None, value)")
    else:
        ctx.fail("R12.g", ms, sets[0], "a class-level assignment on a subclass sets the value on the parent's Parameter object (no copy-on-write): the parent class and its other subclasses change too",
                 key="%s::no-copy-on-write" % ms.qualname)

    # ------------------------------------------------------------ R12.n
    n_wb = 0
    for g in ctx.repo.all_funcs("param.parameterized"):
        if g.cls is None or g.cls.name != "Parameters" or g.name in ("update", "_update", "set_param"):
            continue
        vals_names = {t.id for st in ast.walk(g.node) if isinstance(st, ast.Assign) and isinstance(st.value, ast.Call) and norm(st.value.func) in ("self_.values",)
                      for t in st.targets if isinstance(t, ast.Name)}
        derived = set(vals_names)
        for _ in range(3):
            for st in ast.walk(g.node):
                if isinstance(st, ast.Assign) and any(isinstance(x, ast.Name) and x.id in derived for x in ast.walk(st.value)):
                    derived |= {t.id for t in st.targets if isinstance(t, ast.Name)}
        for c in ast.walk(g.node):
            if isinstance(c, ast.Call) and isinstance(c.func, ast.Attribute) and c.func.attr in ("update", "_update") and norm(c.func.value) == "self_":
                n_wb += 1
                gcf = ctx.facts.cfg(g)
                cn_ = [n for n in gcf.live_nodes() if n.kind == "stmt" and n.ast is not None and any(x is c for x in ast.walk(n.ast))]
                if cn_ and any(t is True and norm(e) == "self_.self is None" for e, t in gcf.conditions(cn_[0])):
                    ctx.ok("R12.n", g, c, "class-level branch: there is no instance store to write into")
                    continue
                used = sorted({x.id for a in list(c.args) + [k.value for k in c.keywords] for x in ast.walk(a) if isinstance(x, ast.Name) and x.id in derived})
                if used:
                    ctx.fail("R12.n", g, c, "`%s` writes back values taken from self_.values() (%s): for a parameter the instance never set that is the class default, and the setter stores it on the "
                                            "instance -- from then on the instance no longer follows changes of the class default" % (norm(c)[:60], ", ".join(used)),
                             key="%s::write-back-pins-default" % g.qualname, input="p = P(); p.param.trigger('x'); P.x = 5 -> p.x is still the old default")
                else:
                    ctx.ok("R12.n", g, c, "the values written back are new values, not the object's reported state")
    ctx.require(n_wb >= 3, "fewer than 3 internal update() call sites found in class Parameters (%d)" % n_wb)

    # ------------------------------------------------------------ R12.l
    import itertools as _it
    from engine.absint import Interp as _I, Obj as _O, Unsupported as _U
    from engine.loader import AnalysisError as _AE
    pi = ctx.repo.func(P + "ParameterizedMetaclass.__param_inheritance")
    loops = [st for st in ast.walk(pi.node) if isinstance(st, ast.For) and any(isinstance(t, ast.Attribute) and t.attr == "instantiate" and isinstance(t.ctx, ast.Store) for t in ast.walk(st))]
    ctx.require(loops, "__param_inheritance no longer has a loop that inherits `instantiate`")
    loop = loops[0]
    pname_var = next((x.id for x in ast.walk(loop) if isinstance(x, ast.Name) and x.id in pi.params and x.id != pi.params[0] and "name" in x.id), "param_name")
    pvar = next((t.value.id for t in ast.walk(loop) if isinstance(t, ast.Attribute) and t.attr == "instantiate" and isinstance(t.ctx, ast.Store) and isinstance(t.value, ast.Name)), "param")
    badi = None
    for sup_inst, related in _it.product([True, False], repeat=2):
        sp = _O("ancestor_parameter", instantiate=sup_inst, __kind__="Parameter")
        newp = _O("new_parameter", instantiate=False, __kind__="Parameter")
        sup_cls = _O("superclass")
        sup_cls.attrs["__dict__"] = {"p": sp}

        def hook_i(fn, args, kwargs, related=related):
            if fn == "isinstance" and len(args) == 2:
                return isinstance(args[0], _O) and args[0].attrs.get("__kind__") == "Parameter"
            if fn == "type" and len(args) == 1:
                return "<type of %s>" % getattr(args[0], "name", args[0])
            if fn == "issubclass":
                return related
            return NotImplemented
        it_i = _I(ctx.hier, call_hook=hook_i)
        env_i = {loop.iter.id if isinstance(loop.iter, ast.Name) else "supers": [sup_cls], pname_var: "p", pvar: newp, "p_type": "<type of new_parameter>", "type_change": False,
                 "mcs": _O("new_class")}
        try:
            it_i.choices, it_i.cursor, it_i.imprecise, it_i.notes = [], 0, False, []
            it_i.exec(loop, env_i, pi)
        except _U as e:
            raise _AE("absint cannot interpret the instantiate-inheritance loop: %s -- R12.l cannot decide" % e)
        ctx.abstract_cases += 1
        if it_i.imprecise:
            raise _AE("absint imprecise on the instantiate-inheritance loop (%s) -- R12.l cannot decide" % it_i.notes[:2])
        if newp.attrs["instantiate"] is not sup_inst:
            badi = (sup_inst, related, newp.attrs["instantiate"])
    if badi:
        ctx.fail("R12.l", pi, loop, "an ancestor Parameter with instantiate=%s and a new Parameter whose type is %s to it: the new Parameter ends up with instantiate=%s -- "
                                    "a subclass that re-declares the parameter with a narrower type keeps the mutable default but no longer copies it per instance" % (
                                        badi[0], "related" if badi[1] else "unrelated", badi[2]), key=pi.qualname + "::instantiate-inheritance",
                 input="class A: x = Parameter([1], instantiate=True); class B(A): x = ListSelector(objects=[..]) -> B().x is B.x")
    else:
        ctx.ok("R12.l", pi, loop, "4/4: instantiate is inherited from the ancestor whatever the type relation")

    from checks.shared import memo_not_mutated_in_place
    memo_not_mutated_in_place(ctx, "R12.r")
    from checks.shared import class_cm_restores
    class_cm_restores(ctx, "R12.t")
    from checks import instcopy_model
    instcopy_model.report(ctx, "R12.p")
    instcopy_model.pf_instance_model(ctx, "R12.i")
    from checks import update_model
    update_model.report(ctx, "C12", "R12.u2")
    private_random_state_before_seeding(ctx, "R12.h")
    constructor_value_extends_the_class(ctx, "R12.j")
    from checks.c13 import value_reporters_agree
    value_reporters_agree(ctx, "R12.e")
    set_in_bounds_assigns_on_the_target(ctx, "R12.b2")
    from checks import namespace_model
    namespace_model.report(ctx, "R12.q")

    # model-level rule, run last (see DESIGN §10)
    from checks import setter_model
    setter_model.report(ctx, "C12", "R12.m")
    from checks import ctor_model
    ctor_model.report(ctx, "C12", "R12.k")
    from checks.shared import instance_tested_by_identity
    instance_tested_by_identity(ctx, "R12.v")
    # R12.w
    n_w = 0
    for g in ctx.repo.funcs.values():
        for c in ast.walk(g.node):
            if isinstance(c, ast.Call) and isinstance(c.func, ast.Attribute) and c.func.attr == "__set__" and c.args and isinstance(c.args[0], ast.Constant) and c.args[0].value is None:
                n_w += 1
                recv = c.func.value
                own_dict = isinstance(recv, ast.Subscript) and norm(recv.value).endswith(".__dict__") and g.qualname == P + "ParameterizedMetaclass.__setattr__"
                if own_dict:
                    ctx.ok("R12.w", g, c, "the metaclass writes through the Parameter in the class's own __dict__")
                else:
                    ctx.fail("R12.w", g, c, "%s writes a class default with `%s`: the Parameter object it reaches may be the one an ancestor declares (the metaclass's copy-on-write is bypassed), "
                                            "so the ancestor, its other subclasses and all their unset instances see the value" % (g.qualname, norm(c)[:80]), key=g.qualname + "::class-default-written-through-__set__")
    ctx.require(n_w >= 1, "the metaclass's own __set__(None, value) call was not found")
    from checks.shared import mutable_container_model
    mutable_container_model(ctx, "R12.u")
    # R12.x
    n_x, hits = 0, []
    for g in ctx.repo.funcs.values():
        aliases = None
        for st in ast.walk(g.node):
            tgt = None
            if isinstance(st, ast.Delete):
                for t in st.targets:
                    if isinstance(t, ast.Subscript):
                        tgt = t.value
            elif isinstance(st, ast.Call) and isinstance(st.func, ast.Attribute) and st.func.attr in ("pop", "popitem", "clear") :
                tgt = st.func.value
            if tgt is None:
                continue
            aliases = aliases if aliases is not None else ctx.facts.local_aliases(g)
            if ctx.facts.field_of(tgt, aliases) == "private.values" or norm(tgt).endswith("_param__private.values"):
                hits.append((g, st))
    n_x = sum(1 for g in ctx.repo.funcs.values() if "_param__private" in ast.unparse(g.node))
    if hits:
        g, st = hits[0]
        ctx.fail("R12.x", g, st, "%s removes an entry from the per-instance value store (`%s`): an instance that explicitly assigned that value -- it may be the very object the class default is -- "
                                 "silently goes back to following the class" % (g.qualname, norm(st)[:70]), key="%s::value-store-entry-removed" % g.qualname)
    else:
        ctx.ok("R12.x", ctx.repo.func(P + "Parameter.__set__"), None, "no removal from the per-instance value store in %d functions that touch the private namespace" % n_x)
    ctx.require(n_x >= 20, "fewer than 20 functions touching the private namespace found (%d)" % n_x)
    # R12.y
    allowed = {"_set_name", "_generate_name", "_setup_params"}
    n_y = 0
    for g in ctx.repo.funcs.values():
        if g.has_decorator("as_uninitialized"):
            n_y += 1
            if g.name in allowed and g.cls is not None and g.cls.qualname == P + "Parameters":
                ctx.ok("R12.y", g, g.node, "%s runs uninitialized (constructor-only code)" % g.name)
            else:
                ctx.fail("R12.y", g, g.node, "%s runs with the instance marked uninitialized: while that holds, `obj.param.<p>` / `obj.param[<p>]` hand out the class-level Parameter instead of the "
                                             "per-instance copy, so metadata edits made by the code it runs (bounds, objects, constant, ...) change the class, its subclasses and every other instance" % g.qualname,
                         key="%s::runs-uninitialized" % g.qualname)
    ctx.require(n_y >= 3, "fewer than 3 functions decorated with as_uninitialized found (%d)" % n_y)


def private_random_state_before_seeding(ctx, rule):
    """numbergen.TimeAwareRandomState._initialize_random_state: `random_generator` is an instantiate=False parameter -- its
    class default is ONE object shared by the class, its subclasses and every instance.  Seeding that object in place
    (`self.random_generator.seed(...)`) from a constructor changes what all of them draw.  Path conditions (enumerated,
    engine/pathcond.py): no valuation of the tests of the function reaches the in-place seeding without having passed a
    rebinding `self.random_generator = <fresh state>` -- in particular none that depends on WHICH object is held."""
    from engine import pathcond
    f = ctx.repo.func("numbergen.TimeAwareRandomState._initialize_random_state")
    cfg = ctx.facts.cfg(f)
    selfn = f.params[0]
    rebinds = [n for n in cfg.live_nodes() for t in stores_in(n) if isinstance(t, ast.Attribute) and t.attr == "random_generator" and isinstance(t.value, ast.Name) and t.value.id == selfn]
    seeds = [n for n in cfg.live_nodes() if n.kind != "br" and n.ast is not None and any(
        isinstance(c, ast.Call) and isinstance(c.func, ast.Attribute) and c.func.attr in ("seed", "setstate") and norm(c.func.value) == selfn + ".random_generator" for c in ast.walk(n.ast))]
    ctx.require(rebinds and seeds, "_initialize_random_state no longer rebinds / seeds self.random_generator")
    atoms = sorted({a for n in cfg.live_nodes() if n.kind == "br" and n.ast is not None for a in pathcond.atoms_in(n.ast)})
    if len(atoms) > 10:
        raise AnalysisError("%s: too many path atoms in _initialize_random_state (%d)" % (rule, len(atoms)))
    rb = {n.id for n in rebinds}
    state = pathcond.reaching(cfg, atoms, stop=lambda n: n.id in rb, labels={"n", "t", "f"})
    for sd in seeds:
        loose = state.get(sd.id, set())
        if loose:
            v = sorted(loose)[0]
            ctx.fail(rule, f, sd, "`%s` can be reached without a private state having been created (path conditions: %s): the object seeded in place is then the class-level default of the "
                                  "instantiate=False parameter `random_generator` -- shared by the class and all its instances: constructing one object reseeds the stream of the others" % (
                                      norm(sd.ast)[:60], ", ".join("%s=%s" % (a, x) for a, x in zip(atoms, v))), key=f.qualname + "::seeds-shared-state",
                     input="class Jitter(UniformRandom): random_generator = random.Random(3); Jitter(seed=1); Jitter(seed=2) share (and reseed) the class-level state")
            return
    ctx.ok(rule, f, seeds[0], "every path to the in-place seeding of self.random_generator passes a rebinding to a fresh state (%d atom(s) enumerated)" % len(atoms))


def constructor_value_extends_the_class(ctx, rule):
    """Three facts of the source, composed:
      (i)  a validator extends the Parameter it runs on: Selector._ensure_value_is_in_objects appends the offered value to
           `self._objects` in place (check_on_set=False);
      (ii) _instantiated_parameter hands out a per-instance copy only for an INITIALISED instance -- before that the
           class-level Parameter governs (and validates) the assignment;
      (iii) Parameterized.__init__ applies the constructor keywords (param._setup_params -> setattr) BEFORE it marks the
           instance initialised.
    Together: `P(s=<new value>)` appends the value to the CLASS's objects -- the class, its subclasses and every other instance
    list and accept it.  The finding is reported while all three facts hold."""
    sel = ctx.hier.resolve("param.parameters.Selector", "_ensure_value_is_in_objects")
    ip = ctx.repo.func("param.parameterized._instantiated_parameter")
    init = ctx.repo.func("param.parameterized.Parameterized.__init__")
    if sel is None:
        raise AnalysisError("%s: Selector._ensure_value_is_in_objects not found" % rule)
    appends = [c for c in ast.walk(sel.node) if isinstance(c, ast.Call) and isinstance(c.func, ast.Attribute) and c.func.attr in ("append", "extend", "insert")
               and isinstance(c.func.value, ast.Attribute) and norm(c.func.value.value) == sel.params[0]]
    needs_init = any(isinstance(c, ast.Constant) and c.value == "initialized" for c in ast.walk(ip.node)) or any(isinstance(a, ast.Attribute) and a.attr == "initialized" for a in ast.walk(ip.node))
    cfg = ctx.facts.cfg(init)
    setups = [n for n in cfg.live_nodes() if n.kind != "br" and n.ast is not None and any(isinstance(c, ast.Call) and isinstance(c.func, ast.Attribute) and c.func.attr == "_setup_params" for c in ast.walk(n.ast))]
    marks = [n for n in cfg.live_nodes() for t in stores_in(n) if isinstance(t, ast.Attribute) and t.attr == "initialized"]
    ctx.require(setups and marks, "Parameterized.__init__ no longer calls _setup_params / marks the instance initialised")
    before = all(not cfg.dominates(m, s) for m in marks for s in setups)        # no `initialized = True` on the way to the keyword loop
    if appends and needs_init and before:
        ctx.fail(rule, sel, appends[0], "`%s` runs on the CLASS-level Parameter when the value comes through the constructor: per-instance Parameter copies exist only once the instance is marked "
                                        "initialised, which Parameterized.__init__ does after applying the keywords -- `P(s=<value outside the objects>)` on a Selector with check_on_set=False "
                                        "extends the objects of the class, of its subclasses and of every other instance" % norm(appends[0])[:50],
                 key="param.parameters.Selector._ensure_value_is_in_objects::extends-the-class-from-the-constructor",
                 input="class P(Parameterized): s = Selector(objects=[1, 2], check_on_set=False); P(s=99) -> list(P.param.s.objects) == [1, 2, 99]")
    else:
        ctx.ok(rule, sel, sel.node, "a value given to the constructor cannot extend the class-level objects (%s)" % (
            "no validator appends in place" if not appends else "per-instance copies do not depend on `initialized`" if not needs_init else "the instance is initialised before the keywords are applied"))


def set_in_bounds_assigns_on_the_target(ctx, rule):
    """Number.set_in_bounds(obj, val) assigns the cropped value ON `obj`: the assignment is `super().__set__(obj, ...)`,
    `self.__set__(obj, ...)` or `setattr(obj, ...)` with the method's own `obj` parameter.  Assigned on `self.owner`,
    a call through a class-level, inherited or per_instance=False Parameter object changes the CLASS default."""
    f = ctx.repo.func("param.parameters.Number.set_in_bounds")
    objp = f.params[1] if len(f.params) > 1 else None
    sets = []
    for c in ast.walk(f.node):
        if isinstance(c, ast.Call):
            fn = norm(c.func)
            if fn.endswith(".__set__") and c.args:
                sets.append((c, norm(c.args[0])))
            elif fn == "setattr" and c.args:
                sets.append((c, norm(c.args[0])))
    ctx.require(sets and objp, "Number.set_in_bounds no longer assigns through __set__ / setattr")
    bad = [(c, tgt) for c, tgt in sets if tgt != objp]
    if bad:
        ctx.fail(rule, f, bad[0][0], "Number.set_in_bounds assigns on `%s`, not on its `%s` argument: through a class-level, inherited or per_instance=False Parameter object the value lands on the "
                                     "class and becomes the default every other instance sees" % (bad[0][1], objp), key=f.qualname + "::assigns-on-another-object",
                 input="N.param.n.set_in_bounds(a, -10) -> N.n == 0 for the class and all instances that never set n")
    else:
        ctx.ok(rule, f, sets[0][0], "set_in_bounds assigns on the object it is given")
