"""Context-manager model (C04 / C05 / C08 / C14): the generator-based context
managers of param.parameterized interpreted abstractly.

A tree-walking interpreter cannot suspend at `yield`; instead the model
supplies the body of the `with` block as a hook that runs when the interpreter
reaches the `yield`.  If the hook raises, the exception is thrown into the
generator at the `yield` -- which is what contextlib does when the body raises.

_batch_call_watchers / batch_call_watchers: entry flag x enable x run x body
  ends normally / raises.  During the body the flag is (enable or entry flag);
  afterwards it is the entry flag; the flush is called iff run and the entry
  flag was False -- also when the body raised -- and only after the flag was
  restored.
discard_events: entry flag x queues empty / holding an earlier event and
  watcher x the body queues more / replaces the queue objects / raises.
  Afterwards flag and queue CONTENTS are those found on entry; no flush.
_syncing: entry set {} / {x} x parameters [x] / [y] x body normal / raises x a
  nested _syncing inside the body.  During the body the set is entry | given;
  afterwards it equals the entry set and the set object saved on entry was not
  mutated.
edit_constant: class-level Parameters c (constant) and n (not); optionally a
  per-instance copy of c made earlier; the body ends normally / raises, and
  optionally instantiates the per-instance copy of c while c is unlocked (the
  copy is born unlocked).  During the body the Parameter that governs the instance is unlocked;
  afterwards every Parameter object for c -- class-level, earlier copy, copy
  made in the body -- is constant again and n is not.
"""
from __future__ import annotations

import itertools

from engine.absint import Interp, Obj, Unsupported, _Raise
from engine.loader import AnalysisError

P = "param.parameterized."


def _run(ctx, qual, env, body, hook=None, glob=None):
    f = ctx.repo.func(qual)
    user_hook = hook

    def hook(fn, args, kwargs):
        # logging is not part of the state the model is about
        if fn in ("get_logger", "logging.getLogger") or fn.split(".")[-1] in ("debug", "info", "warning", "error", "log", "param_log", "verbose", "message"):
            return Obj("logger")
        return user_hook(fn, args, kwargs) if user_hook else NotImplemented
    it = Interp(ctx.hier, call_hook=hook, globals=glob or {}, inline_module_functions=True)
    it.yield_hook = body
    outs = it.run_all(f, env)
    if len(outs) != 1 or outs[0].imprecise:
        raise AnalysisError("context-manager model: %s is not interpretable precisely (%s)" % (qual.rsplit(".", 1)[-1], outs[0].notes[:2] if outs else "no outcome"))
    return outs[0], it


def batch_models(ctx, problems):
    n = 0
    for name in ("_batch_call_watchers", "batch_call_watchers"):
        combos = itertools.product([False, True], [False, True] if name == "_batch_call_watchers" else [True], [False, True] if name == "_batch_call_watchers" else [True], [False, True])
        for b0, enable, run, fails in combos:
            seen = {"body_flag": None, "flushes": []}
            ns = Obj("namespace", _BATCH_WATCH=b0)
            obj = Obj("object", param=ns)

            def hook(fn, args, kwargs, ns=ns, seen=seen):
                if fn.endswith("._batch_call_watchers"):
                    seen["flushes"].append(ns.attrs["_BATCH_WATCH"])
                    return None
                return NotImplemented

            def body(val, ns=ns, seen=seen, fails=fails):
                seen["body_flag"] = ns.attrs["_BATCH_WATCH"]
                if fails:
                    raise _Raise("RuntimeError")
                return None
            env = {"parameterized": obj}
            if name == "_batch_call_watchers":
                env.update(enable=enable, run=run)
            o, _ = _run(ctx, P + name, env, body, hook)
            n += 1
            desc = "%s(entry flag %s%s), body %s" % (name, b0, ", enable=%s, run=%s" % (enable, run) if name == "_batch_call_watchers" else "", "raises" if fails else "ends normally")
            if seen["body_flag"] is not (enable or b0):
                problems["C04"].append("%s: the body runs with the batching flag %s, specification %s" % (desc, seen["body_flag"], enable or b0))
            if ns.attrs["_BATCH_WATCH"] is not b0:
                problems["C05"].append("%s: the batching flag is %s afterwards, it was %s on entry" % (desc, ns.attrs["_BATCH_WATCH"], b0))
            want_flush = 1 if (run and not b0) else 0
            if len(seen["flushes"]) != want_flush:
                (problems["C05"] if fails else problems["C04"]).append("%s: the flush is called %d time(s), specification %d%s" % (
                    desc, len(seen["flushes"]), want_flush, " (events queued before the failure stay queued)" if want_flush and fails else ""))
            elif seen["flushes"] and seen["flushes"][0] is not b0:
                problems["C05"].append("%s: the flush runs before the batching flag is restored" % desc)
                problems["C06"].append("%s: the flush runs while the batching flag is still raised: a depends method that assigns two parameters during the flush has both events coalesced "
                                       "(its dependants run once where a plain assignment runs them twice), and a dependent method that raises leaves the object batching for good -- its "
                                       "depends(watch=True) methods never run again" % desc)
                problems["C03"].append("%s: the flush runs while the batching flag is still raised: an assignment made by a callback of the flush is queued behind the remaining watchers instead of "
                                       "being dispatched before that callback returns (and a callback that raises leaves the object in batching mode: later assignments reach no watcher)" % desc)
            if bool(fails) != (o.kind == "raise"):
                problems["C05"].append("%s: outcome %s" % (desc, o.kind))
    return n


def discard_model(ctx, problems):
    n = 0
    for b0, pre, action, fails in itertools.product([False, True], [False, True], ["queues", "rebinds"], [False, True]):
        e0, w0, e1, w1 = Obj("earlier_event"), Obj("earlier_watcher"), Obj("event_made_in_the_block"), Obj("watcher_queued_in_the_block")
        ns = Obj("namespace", _BATCH_WATCH=b0, _events=[e0] if pre else [], _state_watchers=[w0] if pre else [])
        obj = Obj("object", param=ns)
        flushes, seen = [], {}

        def hook(fn, args, kwargs, flushes=flushes):
            if fn.endswith("._batch_call_watchers"):
                flushes.append(1)
                return None
            return NotImplemented

        def body(val, ns=ns, seen=seen, action=action, fails=fails):
            seen["flag"] = ns.attrs["_BATCH_WATCH"]
            if action == "queues":
                ns.attrs["_events"].append(e1)
                ns.attrs["_state_watchers"].append(w1)
            else:               # a flush / trigger inside the block replaces the queue objects
                ns.attrs["_events"] = [e1]
                ns.attrs["_state_watchers"] = [w1]
            if fails:
                raise _Raise("RuntimeError")
        o, _ = _run(ctx, P + "discard_events", {"parameterized": obj}, body, hook)
        n += 1
        desc = "discard_events(entry flag %s, %s), the body %s and %s" % (b0, "an event and a watcher already queued" if pre else "empty queues",
                                                                           "queues an event" if action == "queues" else "replaces the queues", "raises" if fails else "ends normally")
        if seen.get("flag") is not True:
            problems["C04"].append("%s: the body does not run in batching mode (its events are dispatched, not discarded)" % desc)
        if ns.attrs["_BATCH_WATCH"] is not b0:
            problems["C05"].append("%s: the batching flag is %s afterwards, it was %s" % (desc, ns.attrs["_BATCH_WATCH"], b0))
        ev, ws = ns.attrs["_events"], ns.attrs["_state_watchers"]
        if not isinstance(ev, list) or not isinstance(ws, list):
            raise AnalysisError("context-manager model: the queues are no longer known after %s" % desc)
        if [id(x) for x in ev] != ([id(e0)] if pre else []) or [id(x) for x in ws] != ([id(w0)] if pre else []):
            problems["C03"].append("%s: what the block produced is still queued afterwards (or what was queued before is gone): a watcher is called for an event it must not get, or misses one" % desc)
            (problems["C05"] if fails else problems["C04"]).append("%s: the queues hold %s / %s afterwards, specification %s / %s (what the block produced is dropped, what was queued before is kept)" % (
                desc, [x.name for x in ev], [x.name for x in ws], ["earlier_event"] if pre else [], ["earlier_watcher"] if pre else []))
        if flushes:
            problems["C04"].append("%s: discard_events flushes" % desc)
    return n


def syncing_model(ctx, problems):
    n = 0
    for s0, given, fails, nested in itertools.product([(), ("x",)], [("x",), ("y",)], [False, True], [False, True]):
        entry = set(s0)
        priv = Obj("private", syncing=entry)
        obj = Obj("object", _param__private=priv)
        seen = {}

        def body(val, priv=priv, seen=seen, fails=fails, nested=nested):
            seen["during"] = set(priv.attrs["syncing"]) if isinstance(priv.attrs["syncing"], set) else priv.attrs["syncing"]
            if nested:
                inner_seen = {}

                def inner_body(v):
                    inner_seen["during"] = set(priv.attrs["syncing"]) if isinstance(priv.attrs["syncing"], set) else None
                _run(ctx, P + "_syncing", {"parameterized": obj, "parameters": ["z"]}, inner_body)
                seen["after_nested"] = set(priv.attrs["syncing"]) if isinstance(priv.attrs["syncing"], set) else None
                seen["nested_during"] = inner_seen.get("during")
            if fails:
                raise _Raise("RuntimeError")
        o, _ = _run(ctx, P + "_syncing", {"parameterized": obj, "parameters": list(given)}, body)
        n += 1
        desc = "_syncing(entry set %s, parameters %s)%s, body %s" % (sorted(s0), list(given), " with a nested _syncing(['z'])" if nested else "", "raises" if fails else "ends normally")
        want_during = set(s0) | set(given)
        for tgt in ("C08", "C10"):
            if seen.get("during") != want_during:
                problems[tgt].append("%s: during the body the syncing set is %s, specification %s" % (desc, seen.get("during"), sorted(want_during)))
            if nested and (seen.get("nested_during") != want_during | {"z"} or seen.get("after_nested") != want_during):
                problems[tgt].append("%s: the nested scope sees %s and leaves %s (specification %s, then %s)" % (desc, seen.get("nested_during"), seen.get("after_nested"),
                                                                                                                 sorted(want_during | {"z"}), sorted(want_during)))
            after = priv.attrs["syncing"]
            if not isinstance(after, set) or after != set(s0):
                problems[tgt].append("%s: the syncing set is %s afterwards, it was %s: the names stay marked, so a later plain assignment is taken for the sync's own write (the link "
                                     "is not ended, a pending reference not cancelled)" % (desc, sorted(after) if isinstance(after, set) else after, sorted(s0)))
            elif entry != set(s0):
                problems[tgt].append("%s: the set object saved on entry was mutated in place (%s)" % (desc, sorted(entry)))
        if fails and o.kind != "raise":
            problems["C05"].append("%s: the exception of the body is swallowed" % desc)
        if isinstance(priv.attrs["syncing"], set) and priv.attrs["syncing"] != set(s0) and fails:
            problems["C05"].append("%s: the syncing set is not restored when the body raises" % desc)
    return n


def edit_constant_model(ctx, problems):
    n = 0
    for initialised, had_copy, makes_copy, fails in itertools.product([True, False], [False, True], [False, "instance", "class"], [False, True]):
        if had_copy and makes_copy == "instance":
            continue
        if not initialised and (had_copy or makes_copy == "instance"):
            continue            # an object still under construction has no per-instance Parameters and makes none
        pc, pn = Obj("class_level_Parameter_c", constant=True, name="c"), Obj("class_level_Parameter_n", constant=False, name="n")
        kls = {"c": pc, "n": pn}
        inst = {}
        earlier = Obj("earlier_instance_copy_of_c", constant=True, name="c")
        if had_copy:
            inst["c"] = earlier
        born = Obj("instance_copy_of_c_made_in_the_block", constant=None, name="c")
        cls_param = Obj("class_namespace", __getitem__=kls)

        class _InstanceLookup(dict):
            """obj.param[name] on an initialised instance: its own copy of the Parameter, made on first access (a copy of
            the class-level Parameter as it is at that moment)."""

            def __contains__(self, key):
                return key in kls or key in inst

            def __getitem__(self, key):
                if key not in inst and not initialised:
                    return kls[key]
                if key not in inst:
                    src = kls[key]
                    inst[key] = Obj("instance_copy_of_%s_made_by_the_lookup" % key, constant=src.attrs["constant"], name=key)
                    lookup_made.append(inst[key])
                return inst[key]
        lookup_made = []
        inst_param = Obj("instance_namespace", __getitem__=_InstanceLookup())
        cls = Obj("Cls", param=cls_param)
        obj = Obj("instance", param=inst_param, _param__private=Obj("private", params=inst))
        seen = {}

        def hook(fn, args, kwargs):
            if fn.endswith(".param.objects") or fn.endswith(".objects"):
                return kls if (args and args[0] is False) or kwargs.get("instance") is False else dict(kls, **inst)
            if fn == "type" and args and args[0] is obj:
                return cls
            return NotImplemented

        def body(val, fails=fails):
            own = inst.get("c")
            seen["during"] = (pc.attrs["constant"], own.attrs["constant"] if own is not None else None)
            if makes_copy == "instance" and "c" not in inst:       # a copy is instantiated only where there is none yet
                born.attrs["constant"] = pc.attrs["constant"]      # a copy of the Parameter as it is right now
                inst["c"] = born
            elif makes_copy == "class":
                # a class-level set on the (sub)class copies the inherited, currently unlocked Parameter:
                # from now on a lookup by name finds the copy, not the object that was unlocked
                born.attrs["constant"] = pc.attrs["constant"]
                kls["c"] = born
            if fails:
                raise _Raise("RuntimeError")
        o, _ = _run(ctx, P + "edit_constant", {"parameterized": obj}, body, hook)
        n += 1
        desc = "edit_constant(%s), the body %s%s" % ("an instance that already has its own copy of the constant Parameter" if had_copy else "an instance without per-instance Parameters" if initialised
                                                     else "an object still under construction (no per-instance Parameters yet)",
                                                     "instantiates the per-instance copy of the constant Parameter and " if makes_copy == "instance" else "makes a class-level set that copies the constant Parameter for the class and " if makes_copy == "class" else "", "raises" if fails else "ends normally")
        # the Parameter that governs assignments to the instance: its own copy if it has one, else the class-level one
        has_own = seen.get("during", (None, None))[1] is not None
        governing_unlocked = seen["during"][1] is False if has_own else seen.get("during", (None,))[0] is False
        if not governing_unlocked:
            problems["C14"].append("%s: inside the block the Parameter that governs assignments to the instance (%s) is still constant" % (desc, "its own copy" if has_own else "the class-level one"))
        # the class-level Parameter is shared with every other instance that has no copy of its own: while it is unlocked
        # a sibling accepts plain assignments, and a copy a sibling instantiates meanwhile is born unlocked and never re-locked
        if initialised and seen.get("during", (None,))[0] is not True:
            problems["C14"].append("%s: inside the block the CLASS-level Parameter is unlocked (constant=%s): a sibling instance accepts plain assignments to its constant, and the per-instance copy "
                                   "it instantiates meanwhile is born unlocked and stays so after the block" % (desc, seen.get("during", (None,))[0]))
        locked = [("the class-level Parameter", pc)] + ([("the earlier instance copy", earlier)] if had_copy else []) + ([("the copy made inside the block", born)] if makes_copy and born.attrs["constant"] is not None else []) + [
            ("the instance's own copy made on entry", x) for x in lookup_made]
        for label, pobj in locked:
            if pobj.attrs["constant"] is not True:
                msg = "%s: %s is left with constant=%s: the constant accepts plain assignments from then on" % (desc, label, pobj.attrs["constant"])
                problems["C14"].append(msg)
                if fails:
                    problems["C05"].append(msg)
        if pn.attrs["constant"] is not False:
            problems["C14"].append("%s: the non-constant parameter n ends up constant" % desc)
        if fails and o.kind != "raise":
            problems["C05"].append("%s: the exception of the body is swallowed" % desc)
    return n


def model(ctx):
    problems = {"C03": [], "C04": [], "C05": [], "C08": [], "C10": [], "C14": [], "C06": []}
    try:
        n = batch_models(ctx, problems) + discard_model(ctx, problems) + syncing_model(ctx, problems) + edit_constant_model(ctx, problems)
    except Unsupported as e:
        raise AnalysisError("context-manager model: absint cannot interpret a context manager: %s" % e)
    return n, problems


def report(ctx, prop, rule):
    memo = ctx.__dict__.setdefault('_model_memo', {})
    if 'cm_model' not in memo:
        memo['cm_model'] = model(ctx)
    n, problems = memo['cm_model']
    f = ctx.repo.func(P + {"C14": "edit_constant", "C08": "_syncing", "C10": "_syncing"}.get(prop, "batch_call_watchers"))
    ctx.abstract_cases += n
    bad = problems[prop]
    if not bad:
        ctx.ok(rule, f, f.node, "context-manager model, %d abstract cases over _batch_call_watchers, batch_call_watchers, discard_events, _syncing and edit_constant (body normal / raising, nesting, "
                                "queues replaced, Parameter copies born inside the block): agrees with the specification" % n)
    else:
        ctx.fail(rule, f, f.node, "context-manager model: %s (%d disagreeing observation(s))" % (bad[0], len(bad)), key="%s::context-manager-model::%s" % (P + "contextmanagers", prop))
