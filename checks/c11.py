"""C11 -- Parameter attributes inherit along the MRO; merged defaults are re-validated.

Decided by abstract interpretation of ParameterizedMetaclass.__param_inheritance on
bounded hierarchies (see checks/inherit_model.py), plus the reachability of that
function from both routes the property names (class creation and add_parameter).
"""
from __future__ import annotations

import ast

from engine.loader import AnalysisError, norm

P = "param.parameterized."


def run(ctx):
    ctx.rule("R11.a", "inheritance model: __param_inheritance interpreted abstractly on a new class below a parent (that re-declares the Parameter or skips it) and a grandparent, for every subset of "
                      "default / bounds / doc / label declared anew x Parameter type changed or not x an ancestor with instantiate=True x the validator's verdict x a default that is a value / None / "
                      "falsy (576 cases): per slot the nearest declaring ancestor wins (else the type's default, callables called with the Parameter), inherited containers are copied, instantiate "
                      "is inherited, the merged default is validated whenever the type changed or a validated slot was declared anew with a non-None merged default, and creation fails iff it is rejected", floor=1)
    ctx.rule("R11.b", "both routes the property names reach the merge: the metaclass __init__ (class creation) and Parameters.add_parameter call _initialize_parameter, which calls __param_inheritance; "
                      "a Parameter assigned to a class attribute goes through it as well", floor=3)
    ctx.rule("R11.c", "the re-validation guard treats every default other than None alike (shared with R01.k) and instantiate is inherited whatever the type relation (shared with R12.l)", floor=1)
    ctx.rule("R11.d", "allow_None is recomputed from the class's own declaration, never inherited: every store `self.allow_None = allow_None` of a constructor argument in a Parameter type is "
                      "reached only when that argument is known not to be Undefined (an Undefined slot would be filled from the nearest ancestor by the merge R11.a describes)", floor=2)
    ctx.rule("R11.e", "the exemption list is sound: for every Parameter type, no slot named in its _non_validated_slots (whose re-declaration does not trigger re-validation of the merged "
                      "default) is read by a validator reachable from that type's _validate (e.g. step decides the order check of Range; allow_None decides whether None passes)", floor=20)
    ctx.rule("R11.f", "constructors leave unspecified slots unspecified: no Parameter type's __init__ replaces a slot argument that was not given (Undefined) by a concrete value before it is "
                      "stored -- a slot holding a concrete value counts as declared on that class and is never filled from an ancestor (allow_None is the documented exception: recomputed, R11.d)", floor=25)
    ctx.rule("R11.g", "allow_None is decided by the class's own declaration only: the slot is stored by constructors (and the _set_allow_None helper they call) and by nobody else -- in particular "
                      "not by a post-inheritance hook (_update_state), which runs before the merged default is re-validated and would make an inherited None default acceptable", floor=3)
    ctx.rule("R11.h", "the type-change test is meaningful: no Parameter type whose own _validate_value tests the value with isinstance(val, <builtin type>) is a subclass of another such type "
                      "testing an unrelated builtin (str / bytes, ...): `issubclass(type(ancestor), type(new))` would call the re-declaration compatible and skip the re-validation of the "
                      "inherited default", floor=5)
    ctx.rule("R11.n", "namespace model (shared with R13.h): ParameterizedMetaclass.__setattr__ / _clear_params_cache, Parameters.add_parameter and the _cls_parameters property interpreted abstractly on hierarchies of up to three levels and a diamond: after every class-level assignment, add_parameter or removal, `.param[name]` of every class of the hierarchy is the very Parameter object that governs attribute access there -- `D.param.x` of a class below a re-declaration shows the attributes merged for the nearest declaring class of D's MRO, not those of a farther ancestor", floor=1)
    from checks import namespace_model
    ctx.rule("R11.q", "descriptor lookup model (shared with R14.q): the Parameter a class-level assignment copies for the class is the one of the nearest declaring class of the MRO (a diamond "
                      "whose first base skips the declaration): later re-declarations merge with that copy", floor=1)
    namespace_model.descriptor_lookup_model(ctx, "R11.q")
    namespace_model.report(ctx, "R11.n")
    ctx.rule("R11.o", "no hook runs on shared containers: in __param_inheritance the copy of the mutable slot values taken over from an ancestor precedes param._update_state() (which, for "
                      "selectors, appends the merged default to `_objects` in place) -- otherwise creating a subclass edits the ancestor's Parameter", floor=1)
    copies_before_hooks(ctx, "R11.o")
    ctx.rule("R11.m", "the MRO is Python's: classlist obtains the order of the ancestors from inspect.getmro / __mro__ / mro(), it does not merge the bases' lists itself", floor=1)
    linearisation_is_pythons(ctx, "R11.m")
    ctx.rule("R11.u", "selector model, _update_state: the hook between merge and re-validation appends the merged default to the objects only when check_on_set is False (a dynamic default function "
                      "does not switch the membership check off)", floor=1)
    from checks import selector_model
    selector_model.update_state_model(ctx, "R11.u")
    ctx.rule("R11.v", "the re-validation of a merged default is only as good as the validators it calls: the bounds validators of the Number and Range families, interpreted against an oracle written "
                      "from the property (shared with R01.f) -- a Range validator that checks each end only against its own bound lets a descending default contradict bounds declared at another level", floor=5)
    from checks.c01_bounds import rule_f
    rule_f(ctx, "R11.v")
    ctx.not_decided += ["hierarchies deeper than three levels and multiple-inheritance merges (the model is bounded; the search loop is the same code)",
                        "that the value allow_None is recomputed TO is the right one for each type (only that it is never left Undefined, R11.d)",
                        "that the validators themselves are right (C01)"]
    ctx.assumptions.append("ancestors were created earlier, so every slot of their Parameter objects is filled (only the new Parameter has Undefined slots)")
    # R11.b: call-graph facts
    ip = ctx.repo.func(P + "ParameterizedMetaclass._initialize_parameter")
    calls = [c for c in ast.walk(ip.node) if isinstance(c, ast.Call) and isinstance(c.func, ast.Attribute) and c.func.attr == "__param_inheritance"]
    (ctx.ok if calls else ctx.fail)("R11.b", ip, calls[0] if calls else ip.node, "_initialize_parameter calls __param_inheritance" if calls else "_initialize_parameter no longer merges the inherited slots")
    for q, what in ((P + "Parameters.add_parameter", "add_parameter"), (P + "ParameterizedMetaclass.__init__", "class creation")):
        g = ctx.repo.func(q)
        hit = [c for c in ast.walk(g.node) if isinstance(c, ast.Call) and isinstance(c.func, ast.Attribute) and c.func.attr == "_initialize_parameter"]
        if hit:
            ctx.ok("R11.b", g, hit[0], "%s initialises each Parameter through _initialize_parameter" % what)
        else:
            ctx.fail("R11.b", g, g.node, "%s no longer runs the inheritance merge (and re-validation) for the Parameters it installs" % what, key=q + "::no-merge")
    sa = ctx.repo.func(P + "ParameterizedMetaclass.__setattr__")
    hit = [c for c in ast.walk(sa.node) if isinstance(c, ast.Call) and isinstance(c.func, ast.Attribute) and c.func.attr in ("__param_inheritance", "_initialize_parameter")]
    if hit:
        ctx.ok("R11.b", sa, hit[0], "a Parameter assigned at class level is merged with its ancestors")
    else:
        ctx.fail("R11.b", sa, sa.node, "a Parameter assigned at class level is no longer merged with its ancestors", key=sa.qualname + "::no-merge")
    # R11.d
    from engine.cfg import cond_holds
    n_sites = 0
    for g in ctx.repo.funcs.values():
        if g.cls is None or not ctx.facts.is_parameter_cls(g.cls.qualname) or "allow_None" not in g.params:
            continue
        cfg = None
        for st in ast.walk(g.node):
            if isinstance(st, ast.Assign) and any(isinstance(t, ast.Attribute) and t.attr == "allow_None" and isinstance(t.value, ast.Name) and t.value.id == g.params[0] for t in st.targets) \
                    and isinstance(st.value, ast.Name) and st.value.id == "allow_None":
                cfg = cfg or ctx.facts.cfg(g)
                for nd in cfg.nodes_of(st):
                    n_sites += 1
                    conds = cfg.conditions(nd)
                    if cond_holds(conds, "allow_None is Undefined", False) or cond_holds(conds, "allow_None is not Undefined", True):
                        ctx.ok("R11.d", g, nd, "stored only when given")
                    else:
                        ctx.fail("R11.d", g, nd, "%s stores the constructor argument allow_None without knowing that it was given: left Undefined, the slot is filled from the nearest ancestor "
                                                 "when the class is created, so a redeclaration that does not mention allow_None inherits the ancestor's instead of recomputing it" % g.qualname,
                                 key=g.qualname + "::allow-none-may-be-undefined")
    ctx.require(n_sites >= 2, "fewer than 2 stores of the allow_None argument found (%d)" % n_sites)

    # R11.e
    from checks.c01 import validator_reads

    def class_list(cq, attr, depth=0):
        """Statically evaluate a class attribute that is a list of string constants, possibly `<Class>.<attr> + [...]`."""
        for q_ in ctx.hier.mro(cq):
            cobj = ctx.repo.classes.get(q_)
            node = cobj.class_assign(attr) if cobj is not None else None
            if node is not None:
                def ev(e):
                    if isinstance(e, (ast.List, ast.Tuple)) and all(isinstance(x, ast.Constant) and isinstance(x.value, str) for x in e.elts):
                        return [x.value for x in e.elts]
                    if isinstance(e, ast.BinOp) and isinstance(e.op, ast.Add):
                        l, r = ev(e.left), ev(e.right)
                        return None if l is None or r is None else l + r
                    if isinstance(e, ast.Attribute) and e.attr == attr and isinstance(e.value, ast.Name) and depth < 6:
                        tgt = next((k for k in ctx.repo.classes if k.rsplit(".", 1)[-1] == e.value.id), None)
                        return class_list(tgt, attr, depth + 1) if tgt else None
                    return None
                return ev(node)
        return None
    n_e = 0
    for cq in sorted(ctx.repo.classes):
        if not ctx.facts.is_parameter_cls(cq) or ctx.hier.resolve(cq, "_validate") is None:
            continue
        lst = class_list(cq, "_non_validated_slots")
        if lst is None:
            raise AnalysisError("R11.e: _non_validated_slots of %s is not a list of string constants the checker can evaluate" % cq)
        reads = validator_reads(ctx, cq)
        n_e += 1
        # `_label` is the storage slot behind the label property; `name`/`owner` are read for error messages only
        bad = [s_ for s_ in lst if s_ in reads and s_ not in ("name", "owner")]
        vf = ctx.hier.resolve(cq, "_validate")
        if bad:
            ctx.fail("R11.e", vf, vf.node, "%s exempts `%s` from re-validation (_non_validated_slots), but its validator reads it (%s): a subclass that re-declares only that slot gets a merged "
                                           "default its own validator rejects, and class creation does not notice" % (cq.rsplit(".", 1)[-1], bad[0], ", ".join(reads[bad[0]][:2])),
                     key="%s::exempt-slot-is-validated::%s" % (cq, bad[0]))
        else:
            ctx.ok("R11.e", vf, vf.node, "%s: none of the %d exempt slots is read by its validators" % (cq.rsplit(".", 1)[-1], len(lst)))
    ctx.require(n_e >= 20, "fewer than 20 Parameter types examined for R11.e (%d)" % n_e)

    # R11.f
    n_f = 0
    for cq in sorted(ctx.repo.classes):
        if not ctx.facts.is_parameter_cls(cq):
            continue
        cobj = ctx.repo.classes[cq]
        inits = [g for g in cobj.methods.get("__init__", []) if not g.has_decorator("typing.overload") and not g.has_decorator("overload")]
        slots = set(ctx.hier.all_slots(cq))
        for g in inits:
            n_f += 1
            cfg = None
            hit = None
            for st in ast.walk(g.node):
                if not isinstance(st, ast.Assign):
                    continue
                for t in st.targets:
                    arg = t.id if isinstance(t, ast.Name) else (t.attr if isinstance(t, ast.Attribute) and isinstance(t.value, ast.Name) and t.value.id == g.params[0] else None)
                    if arg is None or arg not in g.params or arg not in slots or arg == "allow_None":
                        continue
                    if isinstance(st.value, ast.Name) and st.value.id in ("Undefined", arg):
                        continue
                    cfg = cfg or ctx.facts.cfg(g)
                    for nd in cfg.nodes_of(st):
                        if cond_holds(cfg.conditions(nd), "%s is Undefined" % arg, True):
                            hit = hit or (st, arg)
            if hit is None:
                ctx.ok("R11.f", g, g.node, "unspecified slot arguments stay Undefined")
            else:
                st, arg = hit
                ctx.fail("R11.f", g, st, "%s gives the slot `%s` a concrete value when the declaration does not specify it (`%s`): the slot then counts as declared on that class, so a "
                                         "re-declaration that omits `%s` does not inherit the ancestor's value (and the merged default is validated against the wrong one)" % (
                                             g.qualname, arg, norm(st)[:70], arg), key="%s::materialises-unspecified::%s" % (g.qualname, arg),
                         input="class A: p = %s(%s=<value>); class B(A): p = %s()  ->  B.param.p.%s is the type's own default, not A's" % (cq.rsplit(".", 1)[-1], arg, cq.rsplit(".", 1)[-1], arg))
    ctx.require(n_f >= 25, "fewer than 25 Parameter constructors examined for R11.f (%d)" % n_f)

    # R11.g
    n_g = 0
    for g in ctx.repo.funcs.values():
        if g.cls is None or not ctx.facts.is_parameter_cls(g.cls.qualname) or not g.params:
            continue
        for st in ast.walk(g.node):
            tg = st.targets if isinstance(st, ast.Assign) else ([st.target] if isinstance(st, (ast.AugAssign, ast.AnnAssign)) else [])
            for t in tg:
                if isinstance(t, ast.Attribute) and t.attr == "allow_None" and isinstance(t.value, ast.Name) and t.value.id == g.params[0]:
                    n_g += 1
                    if g.name in ("__init__", "_set_allow_None"):
                        ctx.ok("R11.g", g, st, "allow_None stored by a constructor")
                    else:
                        ctx.fail("R11.g", g, st, "%s stores allow_None outside a constructor (`%s`): the value no longer follows from the class's own declaration -- after the inherited slots were "
                                                 "merged, a None default taken from an ancestor is made acceptable instead of being rejected by the re-validation" % (g.qualname, norm(st)[:60]),
                                 key="%s::allow-none-written-after-merge" % g.qualname)
    ctx.require(n_g >= 3, "fewer than 3 stores of allow_None found (%d)" % n_g)

    # R11.h
    BUILTINS = {"str", "bytes", "bool", "int", "float", "list", "tuple", "dict", "set"}
    RELATED = {("bool", "int"), ("int", "bool")}
    own_test = {}
    for cq in ctx.repo.classes:
        if not ctx.facts.is_parameter_cls(cq):
            continue
        cobj = ctx.repo.classes[cq]
        for g in cobj.methods.get("_validate_value", []):
            val = g.params[1] if len(g.params) > 1 else None
            tested = set()
            for c in ast.walk(g.node):
                if isinstance(c, ast.Call) and isinstance(c.func, ast.Name) and c.func.id == "isinstance" and len(c.args) == 2 and isinstance(c.args[0], ast.Name) and c.args[0].id == val:
                    spec = c.args[1].elts if isinstance(c.args[1], ast.Tuple) else [c.args[1]]
                    tested |= {x.id for x in spec if isinstance(x, ast.Name) and x.id in BUILTINS}
            if tested:
                own_test[cq] = tested
    n_h = 0
    for cq, tested in sorted(own_test.items()):
        n_h += 1
        clash = None
        for anc in ctx.hier.mro(cq)[1:]:
            if anc in own_test and not (own_test[anc] & tested) and not any((a, b) in RELATED for a in tested for b in own_test[anc]):
                clash = anc
                break
        vf = ctx.repo.classes[cq].methods["_validate_value"][0]
        if clash:
            ctx.fail("R11.h", vf, vf.node, "%s accepts %s values but is a subclass of %s, which accepts %s: re-declaring an inherited %s parameter as %s passes the type-change test "
                                           "(issubclass), so an inherited default of the wrong type is not re-validated and the class is created with it" % (
                                               cq.rsplit(".", 1)[-1], "/".join(sorted(tested)), clash.rsplit(".", 1)[-1], "/".join(sorted(own_test[clash])), cq.rsplit(".", 1)[-1], clash.rsplit(".", 1)[-1]),
                     key="%s::subclass-of-incompatible-type" % cq)
        else:
            ctx.ok("R11.h", vf, vf.node, "%s (%s): no ancestor tests an unrelated builtin type" % (cq.rsplit(".", 1)[-1], "/".join(sorted(tested))))
    ctx.require(n_h >= 5, "fewer than 5 Parameter types with an isinstance test on a builtin found (%d)" % n_h)

    # R11.c
    from checks.shared import inherited_default_revalidated
    inherited_default_revalidated(ctx, "R11.c")
    # model-level rule, run last
    from checks import inherit_model
    inherit_model.report(ctx, "R11.a")


def copies_before_hooks(ctx, rule):
    """In __param_inheritance a mutable slot value taken over from an ancestor is the ANCESTOR'S OBJECT until it is
    copied.  The per-type hook `param._update_state()` (Selector / ListSelector append the merged default to `_objects`
    in place when check_on_set is False) and the dynamic slot defaults run on the new Parameter: they must see the
    copies.  Syntax-directed ordering over the top-level statements of the function: the statement holding the
    crosstalk copy (`copy.copy` of a slot value read back from `param`) comes before every statement that calls
    `param._update_state()`."""
    META = "param.parameterized.ParameterizedMetaclass"
    f = ctx.repo.func(META + ".__param_inheritance")
    top = list(f.node.body)

    def top_index(pred):
        return [i for i, st in enumerate(top) if any(pred(n) for n in ast.walk(st))]
    copies = top_index(lambda n: isinstance(n, ast.Call) and norm(n.func) in ("copy.copy", "copy.deepcopy") and n.args and not isinstance(n.args[0], ast.Constant))
    hooks = top_index(lambda n: isinstance(n, ast.Call) and isinstance(n.func, ast.Attribute) and n.func.attr == "_update_state")
    if not hooks:
        raise AnalysisError("%s: __param_inheritance no longer calls param._update_state() -- the ordering rule has nothing to anchor on" % rule)
    if not copies:
        ctx.fail(rule, f, f.node, "__param_inheritance no longer copies the mutable slot values it takes over from an ancestor: the new Parameter and the ancestor's share one container",
                 key=f.qualname + "::no-crosstalk-copy")
        return
    if min(copies) < min(hooks):
        ctx.ok(rule, f, top[min(copies)], "inherited mutable slot values are copied (statement %d) before param._update_state() runs on the new Parameter (statement %d)" % (min(copies), min(hooks)))
    else:
        ctx.fail(rule, f, top[min(hooks)], "param._update_state() runs on the new Parameter BEFORE the mutable slot values inherited from the ancestor are copied: Selector._update_state appends the "
                                           "merged default to `_objects` in place (check_on_set=False), i.e. to the ANCESTOR's list -- creating B(A) adds B's default to A's objects, and later "
                                           "re-declarations below A inherit the polluted list", key=f.qualname + "::hook-before-copy",
                 input="class A: s = Selector(objects=[1, 2], check_on_set=False); class B(A): s = Selector(default=3) -> A.param.s.objects == [1, 2, 3]")


def linearisation_is_pythons(ctx, rule):
    """"The nearest class in its MRO" is Python's C3 linearisation.  `classlist` -- from which __param_inheritance, the
    descriptor lookup and the `.param` lookup take the order of the ancestors -- obtains it from Python itself
    (inspect.getmro / __mro__ / mro()); a hand-rolled merge of the bases' lists agrees with C3 on chains and plain
    diamonds and differs as soon as a base is listed redundantly (K5(K4, K1) with K4(K1, K3))."""
    f = ctx.repo.func("param.parameterized.classlist")
    uses = [n for n in ast.walk(f.node) if (isinstance(n, ast.Call) and norm(n.func) in ("inspect.getmro", "getmro", "type.mro"))
            or (isinstance(n, ast.Attribute) and n.attr in ("__mro__", "mro"))]
    own = [n for n in ast.walk(f.node) if isinstance(n, ast.Attribute) and n.attr == "__bases__"]
    if uses and not own:
        ctx.ok(rule, f, uses[0], "classlist takes the order of the ancestors from Python's own MRO")
    else:
        ctx.fail(rule, f, (own or [f.node])[0], "classlist computes the order of the ancestors itself (%s) instead of taking Python's MRO: a merge of the bases' lists is not the C3 linearisation "
                                                "-- with K4(K1, K3) and K5(K4, K1) the unspecified attributes of K5's Parameter come from K3 instead of K1, the nearest class of the real MRO" % (
                                                    "walks __bases__" if own else "no use of inspect.getmro / __mro__ / mro()"), key=f.qualname + "::hand-rolled-linearisation",
                 input="class K4(K1, K3); class K5(K4, K1): x = Number()   # unspecified default taken from K3 (50) instead of K1 (5)")
