"""C16 -- serialized state validates against the generated schema (DESIGN §3/C16)."""
from __future__ import annotations

import ast
import itertools

from checks.c01_bounds import BOUNDS_CFGS, INCL, bstr, oracle_accepts
from engine.absint import HI, LO, TOP, Interp, Obj, Unsupported, Val
from engine.effects import walk_stmts
from engine.loader import AnalysisError, norm

SER = "param.serializer.JSONSerialization"
LISTED = ["Integer", "Number", "String", "Boolean", "Tuple", "NumericTuple", "XYCoordinates", "Range", "Date",
          "CalendarDate", "List", "Dict", "Selector", "ListSelector", "ClassSelector"]
PRIMITIVES = {"string", "number", "integer", "boolean", "array", "object", "null"}
VOCAB = {"type", "anyOf", "allOf", "oneOf", "not", "enum", "const", "items", "additionalItems", "minItems", "maxItems", "uniqueItems",
         "minimum", "maximum", "exclusiveMinimum", "exclusiveMaximum", "multipleOf", "properties", "additionalProperties", "required",
         "format", "description", "title", "default", "minLength", "maxLength", "pattern", "contains", "$ref", "$schema", "definitions"}


def literal_strings(expr, fnode):
    """String literals an expression can evaluate to (Constant / IfExp of
    constants / a local bound to those); None if unknown."""
    if isinstance(expr, ast.Constant) and isinstance(expr.value, str):
        return [expr.value]
    if isinstance(expr, ast.IfExp):
        a, b = literal_strings(expr.body, fnode), literal_strings(expr.orelse, fnode)
        return None if a is None or b is None else a + b
    if isinstance(expr, ast.Name):
        defs = [st.value for st in ast.walk(fnode) if isinstance(st, ast.Assign) and any(isinstance(t, ast.Name) and t.id == expr.id for t in st.targets)]
        if not defs:
            return None
        out = []
        for d in defs:
            r = literal_strings(d, fnode)
            if r is None:
                return None
            out += r
        return out
    return None


def schema_accepts(keys, v: Val) -> bool:
    ok = True
    for k, b in keys.items():
        if v.cls == "U":
            return False
        if k == "minimum":
            ok = ok and v.pos >= b.pos
        elif k == "exclusiveMinimum":
            ok = ok and v.pos > b.pos
        elif k == "maximum":
            ok = ok and v.pos <= b.pos
        elif k == "exclusiveMaximum":
            ok = ok and v.pos < b.pos
    return ok


def run(ctx):
    ctx.rule("R16.s", "selector model, compute_default: Selector.compute_default and ListSelector.compute_default interpreted (objects declared up front, a computed default among / outside the "
                      "objects, with and without check_on_set): the computed default -- every item of it -- ends up among the objects in force, exactly once, so the value the object then "
                      "serializes is in the enum its schema lists", floor=1)
    ctx.rule("R16.t", "enum schemas describe the serialized form: for every Parameter type whose schema method lists the objects themselves as `enum` (selector_schema, objectselector_schema, "
                      "listselector_schema and the types that inherit them), serialize / deserialize resolve to the identity of the base Parameter -- a codec that rewrites the value "
                      "(e.g. to its label) would put states into the JSON that the enum does not contain", floor=3)
    ctx.rule("R16.a", "schema dispatch is exhaustive for the listed types: <lower>_schema exists or <lower> is a JSON-Schema primitive; methods deriving 'type' from the class name are reached only for primitive names", floor=15)
    ctx.rule("R16.b", "every key emitted by the schema methods is a JSON-Schema keyword and every literal 'type' value a primitive type name", floor=40)
    ctx.rule("R16.c", "declare_numeric_bounds emits exactly minimum|exclusiveMinimum -> low and maximum|exclusiveMaximum -> high chosen by inclusive_bounds[0]/[1]; "
                      "the emitted keywords accept a value class iff the Number validator's specification does (exhaustive)", floor=3)
    ctx.rule("R16.d", "param_schema wraps with JSONNullable iff p.allow_None; JSONNullable is anyOf[schema, {'type': 'null'}]; tuple_schema pins minItems = maxItems = length", floor=3)
    ctx.rule("R16.e", "schema and serialized state are computed from the same Parameter objects: the entry points hand the same object (instance or class) to the serializer, "
                      "and JSONSerialization.schema / serialize_parameters iterate the same pobj.param.objects(...) view", floor=2)
    ctx.rule("R16.f", "the enum of a selector schema is the live objects the Selector validates against (p.objects), not a view derived from the name mapping", floor=2)
    ctx.rule("R16.h", "the states the schema is promised for are the states validation admits: a class default declared in a subclass is validated against the inherited constraints the "
                      "schema is generated from, for every default other than None (guard of the re-validation in __param_inheritance)", floor=1)
    ctx.rule("R16.i", "the numeric schema methods add nothing to and take nothing from declare_numeric_bounds: number_schema and integer_schema, interpreted abstractly on the 20 bound x inclusivity "
                      "configurations, return exactly {'type': <number|integer>} plus the keywords of declare_numeric_bounds with the declared bounds themselves as values "
                      "(re-stating an exclusive limit n as the inclusive n+1 is wrong for non-integral bounds)", floor=2)
    ctx.rule("R16.m", "setter model: Parameter.__set__ interpreted abstractly on every combination (576) of route x constant/readonly x validation outcome x identity x reference mode x watchers x batching: "
                      "every value that is stored was validated first -- on every route, the constructor route of constant parameters included", floor=1)
    ctx.rule("R16.j", "the value type the validator admits is the type the schema states: for the types whose schema is a literal JSON type (Boolean, Integer, Number, String, List, Tuple, Dict) "
                      "the full validator, interpreted abstractly with the type predicates as inputs, accepts a value iff it is of the declared type or None-with-allow_None (a Boolean that admits 0 / 1 "
                      "serializes a number the schema's 'boolean' rejects)", floor=5)
    ctx.rule("R16.g", "every value class the Number validator accepts is accepted by the emitted schema keywords, also for inclusivity flags that are not literally True/False "
                      "(0, 1): abstract interpretation of both sides on bounds x flags x ordering class (exhaustive)", floor=1)
    ctx.rule("R16.n", "the serialized form has the JSON type the schema states for EVERY valid value: the codecs of the schema-supported container types map None -- and only None -- to null "
                      "(a truthiness test serializes the empty tuple of a length-0 Tuple as null while the schema says array) -- shared with R15.d", floor=4)
    ctx.not_decided += ["that arbitrary serialized values validate against the schema (needs a validator run)", "Selector enum contents (run-time objects)"]
    from checks.c15 import codec_none_guards
    ctx.rule("R16.k", "class schema model: JSONSerialization.class__schema interpreted for tuples of classes ((int, float), (float, int), (int, str), (str, int, float)): the schema admits the "
                      "JSON type of the instances of EVERY class of the tuple (`number` for float even when int comes first)", floor=1)
    class_schema_model(ctx, "R16.k")
    ctx.rule("R16.v", "the states the schema is promised for are the states validation admits: the bounds validators of the Number and Range families against the oracle (shared with R01.f) -- a "
                      "descending Range that skips half its bounds checks is a valid state whose serialized form the schema's item bounds reject", floor=5)
    from checks.c01_bounds import rule_f
    rule_f(ctx, "R16.v")
    ctx.rule("R16.p", "the text that must validate is the value the codecs produced: JSONSerialization.dumps is plain json.dumps(x) (a float rounded on the way out can land ON an exclusive bound "
                      "its value was inside of) -- shared with R15.f", floor=2)
    from checks.c15 import transport_is_plain_json
    transport_is_plain_json(ctx, "R16.p")
    ctx.rule("R16.l", "ListProxy model (shared with R18.j): after every mutator the label mapping -- from which selector_schema takes the `anyOf` types -- and the list of objects -- its `enum` -- "
                      "describe the same objects", floor=1)
    from checks import listproxy_model
    listproxy_model.report(ctx, "R16.l")
    ctx.rule("R16.w", "selector schema model: selector_schema / objectselector_schema interpreted for 0, 1 and 2 objects never emit an empty `anyOf` / `allOf` / `oneOf` (the keyword requires a "
                      "non-empty array: the schema of a Selector without objects would not be a JSON Schema)", floor=1)
    selector_schema_wellformed(ctx, "R16.w")
    codec_none_guards(ctx, "R16.n", only=("Tuple", "NumericTuple", "XYCoordinates", "Range", "Date", "CalendarDate", "DateRange", "CalendarDateRange"))
    cls = ctx.repo.cls(SER)
    methods = {m for m in cls.methods if m.endswith("_schema")}

    # ---------------------------------------------------------------- R16.a
    for t in LISTED:
        low = t.lower()
        if low + "_schema" in methods:
            ctx.ok("R16.a", cls.method(low + "_schema"), None, "%s -> %s_schema" % (t, low))
        elif low in PRIMITIVES:
            ctx.ok("R16.a", ctx.repo.method(SER, "param_schema"), None, "%s -> fallback {'type': '%s'} (a primitive)" % (t, low))
        else:
            ctx.fail("R16.a", ctx.repo.method(SER, "param_schema"), None,
                     "no %s_schema method and '%s' is not a JSON-Schema primitive: the fallback emits an ill-formed {'type': '%s'}" % (low, low, low),
                     key=SER + "::missing-schema::" + low)
    # methods deriving the type from the class name
    for m in sorted(methods):
        f = cls.method(m)
        if any(isinstance(a, ast.Attribute) and a.attr == "__name__" for a in ast.walk(f.node)):
            callers = {m} | {o for o in methods if any(isinstance(c, ast.Call) and norm(c.func) == "cls." + m for c in ast.walk(cls.method(o).node))}
            names = {c[:-len("_schema")] for c in callers}
            bad = sorted(n for n in names if n not in PRIMITIVES)
            if bad:
                ctx.fail("R16.a", f, f.node, "%s derives 'type' from the class name but is reached for %s, which are not primitive type names" % (m, bad))
            else:
                ctx.ok("R16.a", f, f.node, "%s derives 'type' from the class name; reached only for %s" % (m, sorted(names)))
    ps = ctx.repo.method(SER, "param_schema")
    gm = ctx.repo.method(SER, "_get_method")
    lowers = any(isinstance(c, ast.Call) and isinstance(c.func, ast.Attribute) and c.func.attr == "lower" for c in ast.walk(gm.node))
    looks_up = any(isinstance(c, ast.Call) and norm(c.func) == "getattr" and norm(c.args[0]) == gm.params[0] for c in ast.walk(gm.node))
    suffix = any(isinstance(c, ast.Call) and norm(c.func) == "cls._get_method" and len(c.args) == 2 and isinstance(c.args[1], ast.Constant) and c.args[1].value == "schema"
                 for c in ast.walk(ps.node))
    ok = lowers and looks_up and suffix
    (ctx.ok if ok else ctx.fail)("R16.a", gm, gm.node, "dispatch by <lower class name>_schema" if ok else "schema dispatch no longer resolves <lower class name>_schema")

    # ---------------------------------------------------------------- R16.b
    scope = [cls.method(m) for m in sorted(methods)] + [cls.method("declare_numeric_bounds"), cls.method("param_schema"),
                                                         cls.method("schema"), ctx.repo.func("param.serializer.JSONNullable")]
    for f in scope:
        keys = []
        for d in ast.walk(f.node):
            if isinstance(d, ast.Dict):
                for k, v in zip(d.keys, d.values):
                    if k is None:
                        continue
                    ks = literal_strings(k, f.node)
                    if ks is None:
                        if isinstance(k, ast.Name) and any(isinstance(g, ast.DictComp) for g in ast.walk(f.node)):
                            continue
                        keys.append((k, None, v))
                    else:
                        for s in ks:
                            keys.append((k, s, v))
            if isinstance(d, ast.DictComp):
                continue   # {name: ...}: property-name maps (DataFrame columns)
        for st in walk_stmts(f.node):
            if isinstance(st, ast.Assign) and isinstance(st.targets[0], ast.Subscript):
                sub = st.targets[0]
                ks = literal_strings(sub.slice, f.node)
                if f.name == "schema" and isinstance(sub.value, ast.Name) and ks is None:
                    continue   # schema[name] = ...: the top level maps parameter names to schemas
                if ks is None:
                    keys.append((sub.slice, None, st.value))
                else:
                    for s in ks:
                        keys.append((sub.slice, s, st.value))
        for k, s, v in keys:
            if s is None:
                ctx.fail("R16.b", f, k, "schema key `%s` is not a resolvable literal" % norm(k))
            elif s in VOCAB:
                ctx.ok("R16.b", f, k, "keyword '%s'" % s)
                if s == "type":
                    tv = literal_strings(v, f.node)
                    if tv is not None:
                        for t in tv:
                            if t in PRIMITIVES:
                                ctx.ok("R16.b", f, v, "type '%s'" % t)
                            else:
                                ctx.fail("R16.b", f, v, "'%s' is not a JSON-Schema primitive type" % t)
            else:
                ctx.fail("R16.b", f, k, "'%s' is not a JSON-Schema keyword: the generated schema is not well-formed / the constraint is silently ignored by validators" % s,
                         key="%s::keyword::%s" % (f.qualname, s))

    # ---------------------------------------------------------------- R16.c
    dn = cls.method("declare_numeric_bounds")
    n = 0
    bad = []
    agree_bad = []
    for bounds in BOUNDS_CFGS:
        for incl in INCL:
            it = Interp(ctx.hier, dyn=SER)
            try:
                outs = it.run_all(dn, {"cls": Obj("cls"), "schema": {"type": "number"}, "bounds": bounds, "inclusive_bounds": incl})
            except Unsupported as e:
                raise AnalysisError("absint cannot interpret declare_numeric_bounds: %s" % e)
            n += 1
            want = {}
            if bounds is not None:
                if bounds[0] is not None:
                    want["minimum" if incl[0] else "exclusiveMinimum"] = LO
                if bounds[1] is not None:
                    want["maximum" if incl[1] else "exclusiveMaximum"] = HI
            for o in outs:
                if o.imprecise or o.kind != "return" or not isinstance(o.value, dict):
                    raise AnalysisError("absint imprecise on declare_numeric_bounds (%s)" % (o.notes or o.kind))
                got = {k: v for k, v in o.value.items() if k != "type"}
                if got != want:
                    bad.append((bstr(bounds), incl, {k: repr(v) for k, v in got.items()}, {k: repr(v) for k, v in want.items()}))
                for c in [0, 1, 2, 3, 4]:
                    v = Val(c)
                    n += 1
                    if schema_accepts(got, v) != oracle_accepts(bounds, incl, [v]):
                        agree_bad.append((bstr(bounds), incl, repr(v)))
    ctx.abstract_cases += n
    ctx.exhaustive = True
    if bad:
        ctx.fail("R16.c", dn, dn.node, "declare_numeric_bounds(bounds=%s, inclusive_bounds=%s) emits %s, specification %s" % bad[0], key=dn.qualname + "::keywords")
    else:
        ctx.ok("R16.c", dn, dn.node, "20/20 bound x inclusivity configurations emit exactly the specified keywords")
    if agree_bad:
        ctx.fail("R16.c", dn, dn.node, "schema and validator disagree: bounds=%s inclusive=%s value %s" % agree_bad[0], key=dn.qualname + "::schema-vs-validator")
    else:
        ctx.ok("R16.c", dn, dn.node, "the emitted keywords accept exactly the value classes the Number validator's specification accepts (100 cases)")
    for m in ("number_schema", "range_schema"):
        f = cls.method(m)
        calls = [c for c in ast.walk(f.node) if isinstance(c, ast.Call) and norm(c.func) == "cls.declare_numeric_bounds"]
        ok = calls and [norm(a) for a in calls[0].args[1:]] == ["p.bounds", "p.inclusive_bounds"]
        (ctx.ok if ok else ctx.fail)("R16.c", f, f.node, "%s passes p.bounds, p.inclusive_bounds" % m if ok else "%s does not pass (p.bounds, p.inclusive_bounds) to declare_numeric_bounds" % m)

    # ---------------------------------------------------------------- R16.i
    for mname in ("number_schema", "integer_schema"):
        mf = cls.method(mname)
        if mf is None:
            raise AnalysisError("JSONSerialization.%s not found" % mname)
        badm = None
        for bounds in BOUNDS_CFGS:
            for incl in INCL:
                pobj = Obj("p", bounds=bounds, inclusive_bounds=incl, allow_None=False, step=None)
                it = Interp(ctx.hier, dyn=SER, inline=lambda m: True, strict_self_calls=True)
                try:
                    outs = it.run_all(mf, {"cls": Obj("cls"), "p": pobj, "safe": False})
                except Unsupported as e:
                    raise AnalysisError("absint cannot interpret %s: %s -- R16.i cannot decide" % (mname, e))
                ctx.abstract_cases += 1
                if len(outs) != 1 or outs[0].kind != "return" or not isinstance(outs[0].value, dict):
                    raise AnalysisError("absint imprecise on %s -- R16.i cannot decide" % mname)
                got = dict(outs[0].value)
                want = {}
                if bounds is not None:
                    if bounds[0] is not None:
                        want["minimum" if incl[0] else "exclusiveMinimum"] = LO
                    if bounds[1] is not None:
                        want["maximum" if incl[1] else "exclusiveMaximum"] = HI
                gk = {k for k in got if k != "type"}
                if gk != set(want):
                    badm = (bstr(bounds), incl, sorted(gk), sorted(want))
                elif any(got[k] is not want[k] for k in want):
                    if any(got[k] is TOP for k in want):
                        badm = (bstr(bounds), incl, "a value computed from the bound", "the declared bound itself")
                    else:
                        badm = (bstr(bounds), incl, {k: repr(v) for k, v in got.items() if k != "type"}, {k: repr(v) for k, v in want.items()})
                if badm:
                    break
            if badm:
                break
        if badm:
            ctx.fail("R16.i", mf, mf.node, "%s(bounds=%s, inclusive_bounds=%s) emits %s, specification %s: the limit the schema states is not the one the validator enforces "
                                           "(an exclusive limit restated as an inclusive one is wrong whenever the bound is not an integer)" % ((mname,) + badm), key=mf.qualname + "::bounds-restated",
                     input="param.Integer(bounds=(0.5, 9.5), inclusive_bounds=(False, False)) with value 1 or 9")
        else:
            ctx.ok("R16.i", mf, mf.node, "%s: 20/20 configurations give exactly the keywords of declare_numeric_bounds with the declared bounds as values" % mname)

    # ---------------------------------------------------------------- R16.d
    rets = [st for st in ast.walk(ps.node) if isinstance(st, ast.Return)]
    r = rets[-1].value if rets else None
    ok = isinstance(r, ast.IfExp) and norm(r.test) == "p.allow_None" and isinstance(r.body, ast.Call) and norm(r.body.func) == "JSONNullable" \
        and norm(r.body.args[0]) == norm(r.orelse)
    (ctx.ok if ok else ctx.fail)("R16.d", ps, rets[-1] if rets else ps.node, "JSONNullable(schema) iff p.allow_None" if ok else
                                 "param_schema no longer wraps the schema with JSONNullable exactly when p.allow_None (a None value fails validation / nulls wrongly allowed)")
    jn = ctx.repo.func("param.serializer.JSONNullable")

    def accepts(schema, v):
        """validity of a probe value against the type/enum/anyOf keywords of a concrete schema dict"""
        for k, c in schema.items():
            if k == "type":
                ts_ = c if isinstance(c, list) else [c]
                tname = "null" if v is None else "number" if isinstance(v, (int, float)) and not isinstance(v, bool) else "string" if isinstance(v, str) else "other"
                if tname not in ts_ and not (tname == "number" and "integer" in ts_ and isinstance(v, int)):
                    return False
            elif k == "enum":
                if not any(x is v or (type(x) is type(v) and x == v) for x in c):
                    return False
            elif k == "anyOf":
                if not any(accepts(s_, v) for s_ in c):
                    return False
        return True
    # the shapes the schema methods of this serializer produce for nullable parameters
    shapes = [{"type": "number"}, {"type": "string"}, {"type": "array", "minItems": 2},
              {"anyOf": [{"type": "number"}, {"type": "string"}]},                        # ClassSelector with a tuple of classes
              {"anyOf": [{"type": "number"}], "enum": [1, 2]},                              # selector_schema: anyOf next to enum
              {"anyOf": [{"type": "string"}, {"type": "number"}], "enum": ["a", 1]}]
    probes = [None, 1, 3, "a", "zz"]
    badn = None
    for sh in shapes:
        it = Interp(ctx.hier)
        import copy as _copy
        try:
            outs = it.run_all(jn, {"json_type": _copy.deepcopy(sh)})
        except Unsupported as e:
            raise AnalysisError("absint cannot interpret JSONNullable: %s -- R16.d cannot decide" % e)
        ctx.abstract_cases += 1
        v = outs[0].value if len(outs) == 1 and outs[0].kind == "return" and not outs[0].imprecise else None
        if not isinstance(v, dict):
            raise AnalysisError("absint imprecise on JSONNullable(%r) -- R16.d cannot decide" % (sh,))
        try:
            if not accepts(v, None):
                badn = (sh, v, "null does not validate against it: a legal None value fails the generated schema")
            else:
                for pr in probes[1:]:
                    if accepts(v, pr) != accepts(sh, pr):
                        badn = (sh, v, "the value %r is %s by it but %s by the original schema" % (pr, "accepted" if accepts(v, pr) else "rejected", "accepted" if accepts(sh, pr) else "rejected"))
        except (TypeError, AttributeError):
            raise AnalysisError("JSONNullable(%r) returns a structure the evaluator cannot read: %r" % (sh, v))
        if badn:
            break
    if badn:
        ctx.fail("R16.d", jn, jn.node, "JSONNullable(%r) returns %r: %s" % badn, key=jn.qualname + "::nullable-semantics",
                 input="param.Selector(objects=[1, 2], allow_None=True) with value None: serialized null is rejected by the schema")
    else:
        ctx.ok("R16.d", jn, jn.node, "JSONNullable: on %d schema shapes (incl. anyOf next to enum) null validates against the result and %d probe values are accepted exactly as before" % (len(shapes), len(probes) - 1))
    ts = cls.method("tuple_schema")
    ok = True
    for length in (LO, None):
        it = Interp(ctx.hier, dyn=SER)
        outs = it.run_all(ts, {"cls": Obj("cls"), "p": Obj("p", length=length), "safe": False})
        for o in outs:
            if o.kind != "return" or o.imprecise or not isinstance(o.value, dict):
                ok = False
                continue
            d = o.value
            if length is None:
                ok = ok and set(d) == {"type"}
            else:
                ok = ok and d.get("minItems") is LO and d.get("maxItems") is LO and d.get("type") == "array"
    ctx.abstract_cases += 2
    (ctx.ok if ok else ctx.fail)("R16.d", ts, ts.node, "tuple_schema: type array, minItems = maxItems = length when a length is declared" if ok else
                                 "tuple_schema does not pin minItems and maxItems to the declared length")

    from checks.shared import inherited_default_revalidated
    inherited_default_revalidated(ctx, "R16.h")

    # ---------------------------------------------------------------- R16.e
    PZ = "param.parameterized.Parameters"
    handed = {}
    for m, callee in (("schema", "schema"), ("serialize_parameters", "serialize_parameters"), ("serialize_value", "serialize_parameter_value")):
        f = ctx.repo.method(PZ, m)
        calls = [c for c in ast.walk(f.node) if isinstance(c, ast.Call) and isinstance(c.func, ast.Attribute) and c.func.attr == callee and c.args]
        ctx.require(calls, "Parameters.%s no longer calls serializer.%s" % (m, callee))
        a0 = calls[0].args[0]
        if isinstance(a0, ast.Name):
            defs = [st.value for st in ast.walk(f.node) if isinstance(st, ast.Assign) and any(isinstance(t, ast.Name) and t.id == a0.id for t in st.targets)]
            txt = norm(defs[0]) if len(defs) == 1 else "?"
        else:
            txt = norm(a0)
        handed[m] = (txt, f, calls[0])
    ref = handed["serialize_parameters"][0]
    for m, (txt, f, c) in handed.items():
        if txt == ref == "self_.self_or_cls":
            ctx.ok("R16.e", f, c, "Parameters.%s hands self_.self_or_cls to the serializer" % m)
        else:
            ctx.fail("R16.e", f, c, "Parameters.%s hands `%s` to the serializer while serialize_parameters hands `%s`: the schema of an instance is built from different Parameter objects "
                                    "(class-level constraints) than its serialized state" % (m, txt, ref), key="%s::different-object" % f.qualname,
                     input="obj.param.i.bounds = (0, 100); obj.i = 50; obj.param.schema() still says maximum 10")
    views = {}
    for m in ("schema", "serialize_parameters"):
        f = cls.method(m)
        loops = [st for st in ast.walk(f.node) if isinstance(st, ast.For)]
        views[m] = norm(loops[0].iter) if loops else "?"
    f = cls.method("schema")
    if views["schema"] == views["serialize_parameters"] and "param.objects(" in views["schema"]:
        ctx.ok("R16.e", f, f.node, "both iterate %s" % views["schema"])
    else:
        ctx.fail("R16.e", f, f.node, "JSONSerialization.schema iterates `%s` but serialize_parameters iterates `%s`" % (views["schema"], views["serialize_parameters"]),
                 key=SER + "::different-view")

    # ---------------------------------------------------------------- R16.f
    for m in ("selector_schema", "objectselector_schema", "listselector_schema"):
        f = cls.method(m)
        enums = []
        for d in ast.walk(f.node):
            if isinstance(d, ast.Dict):
                enums += [v for k, v in zip(d.keys, d.values) if isinstance(k, ast.Constant) and k.value == "enum"]
            if isinstance(d, ast.Assign) and isinstance(d.targets[0], ast.Subscript) and isinstance(d.targets[0].slice, ast.Constant) and d.targets[0].slice.value == "enum":
                enums.append(d.value)
        for e in enums:
            src = e
            if isinstance(e, ast.Name):
                defs = [st.value for st in ast.walk(f.node) if isinstance(st, ast.Assign) and any(isinstance(t, ast.Name) and t.id == e.id for t in st.targets)]
                src = defs[0] if len(defs) == 1 else e
            txt = norm(src).replace(" ", "")
            if txt in ("p.objects", "list(p.objects)", "p._objects", "list(p._objects)"):
                ctx.ok("R16.f", f, e, "enum is the live objects list")
            else:
                ctx.fail("R16.f", f, e, "%s builds `enum` from `%s`, not from the objects the Selector validates against: a value the Parameter accepts (and serializes) "
                                        "can be missing from its own schema" % (m, norm(src)[:60]), key="%s::enum-source" % f.qualname,
                         input="dict-declared Selector with check_on_set=False; assign a new value -> the schema's enum does not list it")

    # ---------------------------------------------------------------- R16.g
    vf = ctx.hier.resolve("param.parameters.Number", "_validate")
    n2, bad2 = 0, []
    FLAGS = [True, False, 1, 0]
    for bounds in BOUNDS_CFGS:
        if bounds is None:
            continue
        for incl in itertools.product(FLAGS, repeat=2):
            it = Interp(ctx.hier, dyn=SER)
            outs = it.run_all(dn, {"cls": Obj("cls"), "schema": {"type": "number"}, "bounds": bounds, "inclusive_bounds": incl})
            if any(o.imprecise or o.kind != "return" for o in outs):
                raise AnalysisError("absint imprecise on declare_numeric_bounds with flags %r" % (incl,))
            keys = {k: v for k, v in outs[0].value.items() if k != "type"}
            for c in [0, 1, 2, 3, 4]:
                v = Val(c)
                so = Obj("Number", allow_None=False, bounds=bounds, inclusive_bounds=incl, softbounds=None, step=None)
                it2 = Interp(ctx.hier, dyn="param.parameters.Number", inline=lambda m: m == "_validate_bounds")
                try:
                    vouts = it2.run_all(vf, {vf.params[0]: so, vf.params[1]: v})
                except Unsupported as e:
                    raise AnalysisError("absint cannot interpret Number._validate_bounds: %s" % e)
                if any(o.imprecise for o in vouts):
                    raise AnalysisError("absint imprecise on Number._validate_bounds with flags %r" % (incl,))
                n2 += 1
                accepted = all(o.kind == "return" for o in vouts)
                if accepted and not schema_accepts(keys, v):
                    bad2.append((bstr(bounds), incl, repr(v), sorted(keys)))
    ctx.abstract_cases += n2
    if bad2:
        ctx.fail("R16.g", vf, vf.node, "with bounds=%s inclusive_bounds=%r the validator accepts %s but the schema %s rejects it: a valid state does not validate against its own schema" % bad2[0],
                 key="param.parameters.Number._validate_bounds::schema-stricter-than-validator",
                 input="Number(bounds=(0, 10), inclusive_bounds=(0, 1)); x = 0 is accepted, schema says exclusiveMinimum 0")
    else:
        ctx.ok("R16.g", vf, vf.node, "%d cases: whatever the validator accepts, the schema accepts (flags True/False/1/0)" % n2)

    from checks import c01_types
    for q_ in ("param.parameters.Boolean", "param.parameters.Integer", "param.parameters.Number", "param.parameterized.String", "param.parameters.List", "param.parameters.Tuple", "param.parameters.Dict"):
        c01_types.run_type(ctx, q_, rule="R16.j")

    # model-level rule, run last
    from checks import setter_model
    setter_model.report(ctx, "C16", "R16.m")
    from checks import selector_model
    selector_model.report_compute_default(ctx, "R16.s")
    # R16.t
    SERQ = "param.serializer.JSONSerialization"
    enum_schemas = {}
    for g in ctx.repo.funcs.values():
        if g.cls is not None and g.cls.qualname == SERQ and g.name.endswith("_schema"):
            emits = any(isinstance(n, ast.Constant) and n.value == "enum" for n in ast.walk(g.node))
            if emits and any(isinstance(n, ast.Attribute) and n.attr == "objects" for n in ast.walk(g.node)):
                enum_schemas[g.name[:-len("_schema")]] = g
    ctx.require(len(enum_schemas) >= 2, "fewer than 2 schema methods listing objects as enum found (%d)" % len(enum_schemas))
    base_ser = {m: ctx.hier.resolve("param.parameterized.Parameter", m) for m in ("serialize", "deserialize")}
    n_t = 0
    for cq in sorted(ctx.repo.classes):
        if not ctx.facts.is_parameter_cls(cq):
            continue
        via = next((k for k in ctx.hier.mro(cq) if k.rsplit(".", 1)[-1].lower() in enum_schemas), None)
        if via is None:
            continue
        n_t += 1
        sch = enum_schemas[via.rsplit(".", 1)[-1].lower()]
        bad = [m for m in ("serialize", "deserialize") if ctx.hier.resolve(cq, m) is not base_ser[m]]
        if bad:
            g = ctx.hier.resolve(cq, bad[0])
            ctx.fail("R16.t", g, g.node, "%s.%s rewrites the value, but the schema of %s (%s) lists the objects themselves as enum: the serialized state of a valid object is not in the "
                                         "enum its own schema gives" % (g.qualname.rsplit(".", 2)[-2], bad[0], cq.rsplit(".", 1)[-1], sch.name), key="%s::codec-vs-enum-schema" % g.qualname)
        else:
            ctx.ok("R16.t", sch, sch.node, "%s is serialized as it is; %s lists the objects" % (cq.rsplit(".", 1)[-1], sch.name))
    ctx.require(n_t >= 3, "fewer than 3 Parameter types with an enum schema found (%d)" % n_t)


def class_schema_model(ctx, rule):
    """JSONSerialization.class__schema interpreted for a tuple of classes -- (int, float), (float, int), (int, str),
    (str, int, float) -- with the class-to-JSON-type table supplied by the model.

    Specification: the schema admits, for every class of the tuple, the JSON type of that class's instances: `number`
    for float (an integer-only schema rejects 2.5 although the validator accepts it), `integer` or `number` for int,
    `string` for str."""
    from engine.absint import Interp, Obj, Unsupported
    f = ctx.repo.method(SER, "class__schema")
    table = {"<type int>": "integer", "<type float>": "number", "<type str>": "string"}
    problems, n = [], 0
    for tup in (("<type int>", "<type float>"), ("<type float>", "<type int>"), ("<type int>", "<type str>"), ("<type str>", "<type int>", "<type float>")):
        me = Obj("JSONSerialization", json_schema_literal_types=dict(table))

        def hook(fn, args, kwargs):
            if fn == "isinstance" and len(args) == 2 and args[1] == "<type tuple>":
                return isinstance(args[0], tuple)
            if fn == "issubclass":
                return False
            return NotImplemented
        it = Interp(ctx.hier, dyn=SER, inline=lambda m: m == "class__schema", call_hook=hook, globals={"Parameterized": Obj("Parameterized")})
        try:
            outs = it.run_all(f, {f.params[0]: me, f.params[1]: tup, "safe": False})
        except Unsupported as e:
            raise AnalysisError("%s: absint cannot interpret class__schema: %s" % (rule, e))
        if len(outs) != 1 or outs[0].imprecise or outs[0].kind != "return" or not isinstance(outs[0].value, dict):
            raise AnalysisError("%s: class__schema is not interpretable precisely (%s)" % (rule, outs[0].notes[:2] if outs else "no outcome"))
        n += 1
        sch = outs[0].value

        def admitted(s):
            if not isinstance(s, dict):
                raise AnalysisError("%s: class__schema emits a sub-schema the model cannot read (%r)" % (rule, s))
            if "anyOf" in s:
                out = set()
                for x in s["anyOf"]:
                    out |= admitted(x)
                return out
            t = s.get("type")
            return set(t) if isinstance(t, (list, tuple)) else {t}
        types = admitted(sch)
        for c in tup:
            want = table[c]
            if not (want in types or (want == "integer" and "number" in types)):
                problems.append("class_=(%s): the schema admits the JSON types %s, specification: also `%s` (the validator accepts %s values, e.g. 2.5 for float)" % (
                    ", ".join(x[6:-1] for x in tup), sorted(x for x in types if x), want, c[6:-1]))
    ctx.abstract_cases += n
    if problems:
        ctx.fail(rule, f, f.node, "class schema model: %s (%d problem(s))" % (problems[0], len(problems)), key=f.qualname + "::tuple-of-classes",
                 input="ClassSelector(class_=(int, float)) holding 2.5; List(item_type=(int, float)) holding [1, 2.5]")
    else:
        ctx.ok(rule, f, f.node, "class schema model: for a tuple of classes the schema admits the JSON type of every class of the tuple (%d tuples)" % n)


def selector_schema_wellformed(ctx, rule):
    """selector_schema / objectselector_schema interpreted for a Selector with NO objects, one object and two objects of
    different JSON types: `anyOf` (like `allOf` / `oneOf`) must be a NON-EMPTY array in every draft of JSON Schema, so the
    schema emitted for an empty Selector -- a legal declaration, e.g. one whose objects are filled in later -- must not
    carry `anyOf: []`."""
    from engine.absint import Interp, Obj, Unsupported
    problems, n = [], 0
    table = {"<type int>": "integer", "<type str>": "string"}
    for m in ("selector_schema", "objectselector_schema"):
        f = ctx.repo.method(SER, m)
        for objs, types in (([], []), (["one"], ["<type str>"]), (["one", 2], ["<type str>", "<type int>"])):
            objects = list(objs)
            p = Obj("selector", objects=objects)
            me = Obj("JSONSerialization", json_schema_literal_types=dict(table))

            def hook(fn, args, kwargs):
                if fn.endswith(".objects.values") and not args:
                    return list(objects)
                if fn == "type" and len(args) == 1 and args[0] in objs:
                    return types[objs.index(args[0])]
                return NotImplemented
            it = Interp(ctx.hier, dyn=SER, inline=lambda mm: False, call_hook=hook)
            try:
                outs = it.run_all(f, {f.params[0]: me, f.params[1]: p, "safe": False})
            except Unsupported as e:
                raise AnalysisError("%s: absint cannot interpret %s: %s" % (rule, m, e))
            rets = [o for o in outs if o.kind == "return" and not o.imprecise]
            if len(outs) != 1 or len(rets) != 1 or not isinstance(rets[0].value, dict):
                raise AnalysisError("%s: %s is not interpretable precisely on %d object(s) (%s)" % (rule, m, len(objs), outs[0].notes[:2] if outs else "no outcome"))
            n += 1
            sch = rets[0].value
            for key in ("anyOf", "allOf", "oneOf"):
                if key in sch and isinstance(sch[key], list) and not sch[key]:
                    problems.append((f, "%s emits `%s: []` for a Selector without objects: not a well-formed JSON Schema (the keyword requires a non-empty array; validators reject the schema itself)" % (m, key)))
    ctx.abstract_cases += n
    if problems:
        f, msg = problems[0]
        ctx.fail(rule, f, f.node, "selector schema model: %s (%d problem(s))" % (msg, len(problems)), key=SER + "::empty-combinator", input="param.Selector(objects=[]) -> schema {'anyOf': [], 'enum': []}")
    else:
        ctx.ok(rule, ctx.repo.method(SER, "selector_schema"), None, "selector schema model: no empty anyOf / allOf / oneOf for 0, 1 and 2 objects (%d cases)" % n)
