"""Abstract interpretation of Parameters._call_watcher (shared by C03/C04)."""
from engine.absint import Interp, Obj, Unsupported
from engine.loader import AnalysisError

P = "param.parameterized."


def call_watcher_outcome(ctx, trig, onlychanged, changed, batch, prequeued="none", queued=False):
    """Run _call_watcher abstractly; returns ('skip'|'queue'|'execute'|'both', ns_obj, watcher)."""
    cw = ctx.repo.func(P + "Parameters._call_watcher")
    w = Obj("watcher", onlychanged=onlychanged, queued=queued)
    other = Obj("other_watcher", onlychanged=onlychanged, queued=False)
    # "twin": a second, separate registration with equal fields (Watcher is a namedtuple: it compares equal)
    twin = Obj("equal_twin_watcher", onlychanged=onlychanged, queued=queued)
    w.attrs["__eqclass__"] = twin.attrs["__eqclass__"] = "same-fields"
    other.attrs["__eqclass__"] = "other-fields"
    pre = {"none": [], "same": [w], "other": [other], "twin": [twin]}[prequeued]
    ns = Obj("ns", _TRIGGER=trig, _BATCH_WATCH=batch, _events=[], _state_watchers=list(pre), self_or_cls=Obj("owner"))
    holder = {}

    def hook(name, args, kwargs):
        if name.endswith("._changed"):
            return changed
        if name.endswith("._execute_watcher"):
            holder["it"].trace.append("execute")
            return None
        if name.endswith("._update_event_type"):
            return Obj("typed_event")
        if name == "_batch_call_watchers":
            return Obj("scope")
        return NotImplemented
    it = Interp(ctx.hier, call_hook=hook, strict_self_calls=True)
    holder["it"] = it
    try:
        outs = it.run_all(cw, {"self_": ns, "watcher": w, "event": Obj("event")})
    except Unsupported as e:
        raise AnalysisError("absint cannot interpret _call_watcher: %s" % e)
    res = set()
    for o in outs:
        if o.imprecise:
            raise AnalysisError("absint imprecise on _call_watcher: %s" % o.notes)
        queued = len(ns.attrs["_events"]) >= 1
        executed = "execute" in o.trace
        res.add("both" if queued and executed else "queue" if queued else "execute" if executed else "skip")
    if len(res) != 1:
        raise AnalysisError("_call_watcher has several outcomes for one abstract input: %s" % res)
    return res.pop(), ns, w, len(pre)


def execute_watcher_model(ctx, rule):
    """Parameters._execute_watcher interpreted abstractly: calling mode (args / kwargs) x synchronous / coroutine callback, for
    two events whose parameters have been assigned AGAIN since (the owner's current attribute values differ from the
    values the events installed -- an earlier watcher of the same event re-assigned them).

    Specification: an args-mode callback receives exactly the events, a kwargs-mode callback exactly
    {name: the value THAT event installed}; a coroutine callback is scheduled once with the same arguments; Skip raised
    by the callback is swallowed, nothing else."""
    from engine.absint import _Raise
    f = ctx.repo.func(P + "Parameters._execute_watcher")
    problems, n = [], 0
    for mode, is_async, raises_skip in [(m, a, s) for m in ("args", "kwargs") for a in (False, True) for s in (False, True) if not (a and s)]:
        va, vb = Obj("value_installed_by_event_a"), Obj("value_installed_by_event_b")
        owner = Obj("owner", a=Obj("value_assigned_later_to_a"), b=Obj("value_assigned_later_to_b"))
        e1 = Obj("event_a", name="a", new=va, old=Obj("old_a"), obj=owner)
        e2 = Obj("event_b", name="b", new=vb, old=Obj("old_b"), obj=owner)
        fn = Obj("callback", __callable__=True)
        w = Obj("watcher", mode=mode, fn=fn)
        called, scheduled = [], []

        def hook(name, args, kwargs):
            if name == "iscoroutinefunction":
                return is_async
            if name == "watcher.fn":
                called.append((tuple(args), dict(kwargs)))
                if raises_skip:
                    raise _Raise("Skip")
                return None
            if name == "partial":
                return Obj("partial", args=tuple(args), kwargs=dict(kwargs))
            if name == "async_executor":
                scheduled.append(args[0] if args else None)
                return None
            return NotImplemented
        ns = Obj("ns", self_or_cls=owner, self=owner)
        it = Interp(ctx.hier, dyn=P + "Parameters", inline=lambda m: False, call_hook=hook, globals={"async_executor": Obj("executor"), "Skip": Obj("Skip")})
        try:
            outs = it.run_all(f, {f.params[0]: ns, "watcher": w, "events": [e1, e2]})
        except Unsupported as e:
            raise AnalysisError("dispatch model: absint cannot interpret _execute_watcher: %s" % e)
        if len(outs) != 1 or outs[0].imprecise:
            raise AnalysisError("dispatch model: _execute_watcher is not interpretable precisely (%s)" % (outs[0].notes[:2] if outs else "no outcome"))
        n += 1
        desc = "%s-mode %s callback%s" % (mode, "coroutine" if is_async else "synchronous", " that raises Skip" if raises_skip else "")
        if outs[0].kind != "return":
            problems.append("%s: _execute_watcher raises %s" % (desc, outs[0].value))
            continue
        if is_async:
            got = [(s.attrs.get("args", ())[1:], s.attrs.get("kwargs", {})) for s in scheduled if isinstance(s, Obj)]
            if called or len(scheduled) != 1 or not (scheduled[0].attrs.get("args", (None,))[0] is fn):
                problems.append("%s: called %d time(s) directly, scheduled %d time(s); specification: scheduled exactly once" % (desc, len(called), len(scheduled)))
                continue
        else:
            got = called
            if len(called) != 1 or scheduled:
                problems.append("%s: called %d time(s), scheduled %d time(s); specification: called exactly once" % (desc, len(called), len(scheduled)))
                continue
        a, k = got[0]
        if mode == "args":
            if len(a) != 2 or a[0] is not e1 or a[1] is not e2 or k:
                problems.append("%s: receives %r %r, specification: exactly the events" % (desc, a, k))
        else:
            if a or set(k) != {"a", "b"} or k.get("a") is not va or k.get("b") is not vb:
                problems.append("%s: receives %s, specification {a: the value event a installed, b: the value event b installed} -- not what the attribute holds by the time the "
                                "callback runs (an earlier watcher may have assigned it again; that assignment has its own event)" % (desc, {x: getattr(y, "name", y) for x, y in k.items()}))
    ctx.abstract_cases += n
    if problems:
        ctx.fail(rule, f, f.node, "dispatch model (_execute_watcher): %s (%d disagreeing case(s))" % (problems[0], len(problems)), key=f.qualname + "::execute-model")
    else:
        ctx.ok(rule, f, f.node, "dispatch model: _execute_watcher hands an args-mode callback the events and a kwargs-mode callback the values the events installed; coroutines scheduled once; Skip swallowed (%d cases)" % n)


def snapshot_model(ctx, rule, prop):
    """Parameters._call_watcher interpreted in two situations the per-event dispatch loop creates:

    * the watcher was UNREGISTERED after the dispatch snapshot was taken (an earlier watcher of the same event rebuilt
      the dependency watchers: the old ones are the only carriers of this event; the new ones never see it) -- it must
      still be served (executed, or queued in a batch);
    * inside a batch, an event for the same parameter is ALREADY queued (for another watcher) when this watcher -- not
      queued yet, e.g. installed by a link made in the middle of the batch -- meets its first event: it must be queued,
      and the new event recorded."""
    cw = ctx.repo.func(P + "Parameters._call_watcher")
    problems, n = [], 0
    for situation, batch in (("unregistered", False), ("unregistered", True), ("prior-event", True)):
        w = Obj("watcher", onlychanged=False, queued=False, __eqclass__="w")
        other = Obj("watcher_of_somebody_else", onlychanged=False, queued=False, __eqclass__="o")
        owner = Obj("owner", _param__private=Obj("private", watchers={} if situation == "unregistered" else {"a": {"value": [other, w]}}))
        prior = Obj("earlier_event_of_the_batch", name="a", what="value", __eqclass__="prior")
        ev = Obj("event", name="a", what="value", __eqclass__="this")
        pa = Obj("param_a", watchers={})
        ns = Obj("ns", _TRIGGER=False, _BATCH_WATCH=batch, _events=[prior] if situation == "prior-event" else [], _state_watchers=[other] if situation == "prior-event" else [],
                 self_or_cls=owner, self=owner, __getitem__={"a": pa})
        trace = []

        def hook(name, args, kwargs):
            if name.endswith("._changed"):
                return True
            if name.endswith("._execute_watcher"):
                trace.append("execute")
                return None
            if name.endswith("._update_event_type"):
                return Obj("typed_event")
            if name == "_batch_call_watchers":
                return Obj("scope")
            return NotImplemented
        it = Interp(ctx.hier, dyn=P + "Parameters", inline=lambda m: m not in ("_changed", "_execute_watcher", "_update_event_type"), call_hook=hook, strict_self_calls=True)
        try:
            outs = it.run_all(cw, {"self_": ns, "watcher": w, "event": ev})
        except Unsupported as e:
            raise AnalysisError("dispatch model: absint cannot interpret _call_watcher: %s" % e)
        if len(outs) != 1 or outs[0].imprecise or outs[0].kind != "return":
            raise AnalysisError("dispatch model: _call_watcher is not interpretable precisely (%s: %s)" % (situation, outs[0].notes[:2] if outs else "no outcome"))
        n += 1
        queued_w = any(x is w for x in ns.attrs["_state_watchers"])
        queued_ev = any(x is ev for x in ns.attrs["_events"])
        if situation == "unregistered":
            served = (queued_w and queued_ev) if batch else bool(trace)
            if not served:
                problems.append("a watcher that was unregistered after the dispatch snapshot was taken is dropped (%s): when the first dependency watcher of an event re-resolves the parent's "
                                "dependencies, the old watchers of the OTHER methods are the only carriers of that event -- those methods miss the change" % ("batch open" if batch else "no batch"))
        else:
            if not queued_w:
                problems.append("inside a batch, a watcher meeting its first event is not queued because an event for the same parameter was already queued for another watcher: a link made "
                                "in the middle of the batch never syncs and keeps the earlier value")
            if not queued_ev:
                problems.append("inside a batch, the later event of a parameter is not recorded: the flush delivers the earlier value")
    ctx.abstract_cases += n
    if problems:
        ctx.fail(rule, cw, cw.node, "dispatch model (snapshot): %s (%d disagreeing case(s))" % (problems[0], len(problems)), key="%s::snapshot-model::%s" % (cw.qualname, prop))
    else:
        ctx.ok(rule, cw, cw.node, "dispatch model: a watcher unregistered after the snapshot is still served; in a batch a watcher is queued at its first event whatever is queued already")
