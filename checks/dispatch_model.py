"""Abstract interpretation of Parameters._call_watcher (shared by C03/C04)."""
from engine.absint import Interp, Obj, Unsupported
from engine.loader import AnalysisError

P = "param.parameterized."


def call_watcher_outcome(ctx, trig, onlychanged, changed, batch, prequeued="none", queued=False):
    """Run _call_watcher abstractly; returns ('skip'|'queue'|'execute'|'both', ns_obj, watcher)."""
    cw = ctx.repo.func(P + "Parameters._call_watcher")
    w = Obj("watcher", onlychanged=onlychanged, queued=queued)
    other = Obj("other_watcher", onlychanged=onlychanged, queued=False)
    # "twin": a second, separate registration with equal fields (Watcher is a namedtuple: it compares equal)
    twin = Obj("equal_twin_watcher", onlychanged=onlychanged, queued=queued)
    w.attrs["__eqclass__"] = twin.attrs["__eqclass__"] = "same-fields"
    other.attrs["__eqclass__"] = "other-fields"
    pre = {"none": [], "same": [w], "other": [other], "twin": [twin]}[prequeued]
    ns = Obj("ns", _TRIGGER=trig, _BATCH_WATCH=batch, _events=[], _state_watchers=list(pre), self_or_cls=Obj("owner"))
    holder = {}

    def hook(name, args, kwargs):
        if name.endswith("._changed"):
            return changed
        if name.endswith("._execute_watcher"):
            holder["it"].trace.append("execute")
            return None
        if name.endswith("._update_event_type"):
            return Obj("typed_event")
        if name == "_batch_call_watchers":
            return Obj("scope")
        return NotImplemented
    it = Interp(ctx.hier, call_hook=hook, strict_self_calls=True)
    holder["it"] = it
    try:
        outs = it.run_all(cw, {"self_": ns, "watcher": w, "event": Obj("event")})
    except Unsupported as e:
        raise AnalysisError("absint cannot interpret _call_watcher: %s" % e)
    res = set()
    for o in outs:
        if o.imprecise:
            raise AnalysisError("absint imprecise on _call_watcher: %s" % o.notes)
        queued = len(ns.attrs["_events"]) >= 1
        executed = "execute" in o.trace
        res.add("both" if queued and executed else "queue" if queued else "execute" if executed else "skip")
    if len(res) != 1:
        raise AnalysisError("_call_watcher has several outcomes for one abstract input: %s" % res)
    return res.pop(), ns, w, len(pre)
